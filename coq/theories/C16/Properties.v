(** C16 — property theorems (statements only; proofs by [exact]).  [Heap], [prios]: Proofs.v. *)
From Coq Require Import ZArith List Bool.
From RlibV Require Import C03.Model C03.Corr C03.Proofs C16.Model C16.ModelFam C16.Corr C16.Proofs C16.ProofsStrict C16.ProofsHist C16.ProofsTight.
Import ListNotations.
Open Scope Z_scope.

(** after every history of the multi-treap machine, for every priority stream and ANY item functions, every live treap is heap-ordered along every edge *)
Theorem c16_heap_preserved : forall (T M V A : Type) (update : T -> option T -> option T -> T) (push : T -> option T -> option T -> T * option T * option T) (size : T -> Z) (modify : M -> T -> T) (elem : T -> V) (agg : T -> A) (ps : list Z) (ops : list (@op T M V)), Forall Heap (run_final update push size modify elem agg ps ops).
Proof. exact @heap_preserved. Qed.

(** each operation keeps heap order and only concatenates / splits / keeps the in-order priority sequence (insert adds the new priority, remove drops a segment) *)
Theorem c16_priorities_only_moved : forall (T M : Type) (update : T -> option T -> option T -> T) (push : T -> option T -> option T -> T * option T * option T) (size : T -> Z) (modify : M -> T -> T), (forall a b : @tree T, Heap a -> Heap b -> Heap (merge update push a None b None) /\ prios (merge update push a None b None) = prios a ++ prios b) /\ (forall (t : @tree T) k a b, Heap t -> split_at update push size t None k = (a, b) -> Heap a /\ Heap b /\ prios a ++ prios b = prios t) /\ (forall q (t : @tree T) a b, Heap t -> split_by update push q t None = (a, b) -> Heap a /\ Heap b /\ prios a ++ prios b = prios t) /\ (forall t : @tree T, Heap t -> (Heap (fst (first push t None)) /\ prios (fst (first push t None)) = prios t) /\ (Heap (fst (last push t None)) /\ prios (fst (last push t None)) = prios t) /\ (Heap (fst (collect push t None)) /\ prios (fst (collect push t None)) = prios t)) /\ (forall (t : @tree T) k x p, Heap t -> Heap (insert_at update push size t k x p) /\ exists l r, prios t = l ++ r /\ prios (insert_at update push size t k x p) = l ++ p :: r) /\ (forall (t : @tree T) k, Heap t -> Heap (fst (remove_at update push size t k)) /\ exists l m r, prios t = l ++ m ++ r /\ prios (fst (remove_at update push size t k)) = l ++ r) /\ (forall m (t : @tree T), Heap t -> Heap (modify_root modify m t) /\ prios (modify_root modify m t) = prios t).
Proof. exact @ops_heap_prios. Qed.

(** heap-ordered trees with the same in-order (priority, item) list and pairwise distinct priorities are equal: the shape is the Cartesian tree, whatever the history *)
Theorem c16_canonical : forall (T : Type) (t1 t2 : @tree T), Heap t1 -> Heap t2 -> inorder t1 = inorder t2 -> NoDup (map fst (inorder t1)) -> t1 = t2.
Proof. exact @canonical. Qed.

(** the boolean heap test evaluated in the correspondence batches decides Heap *)
Theorem c16_heapb_Heap : forall (T : Type) (t : @tree T), heapb t = true <-> Heap t.
Proof. exact @heapb_Heap. Qed.

(** PARTIAL (the height bound is probabilistic, no universal theorem exists): for the modelled generator (seed 42) and the named adversarial families - sorted appends, front inserts, insert + split-and-swap rotation - with n = 2^k, k <= 14, the model's tree has height <= 5*log2(n+1)+20, is heap-ordered and has n nodes. Missing: any statement for other n, other families, other seeds *)
Theorem c16_height_partial : forall k : Z, 0 <= k <= 14 -> let n := 2 ^ k in (height (fam step_append n) <= 5 * Z.log2 (n + 1) + 20 /\ Heap (fam step_append n) /\ tsize isize (fam step_append n) = n) /\ (height (fam step_front n) <= 5 * Z.log2 (n + 1) + 20 /\ Heap (fam step_front n) /\ tsize isize (fam step_front n) = n) /\ (height (fam step_rotate n) <= 5 * Z.log2 (n + 1) + 20 /\ Heap (fam step_rotate n) /\ tsize isize (fam step_rotate n) = n).
Proof. exact height_partial. Qed.

(** the exact invariant of the code (priority <= left child's, < right child's: on a tie the right operand of merge goes up) holds after every history, for every priority stream and any item functions *)
Theorem c16_heap_strict_preserved : forall (T M V A : Type) (update : T -> option T -> option T -> T) (push : T -> option T -> option T -> T * option T * option T) (size : T -> Z) (modify : M -> T -> T) (elem : T -> V) (agg : T -> A) (ps : list Z) (ops : list (@op T M V)), Forall HeapS (run_final update push size modify elem agg ps ops).
Proof. exact @heapS_preserved. Qed.

(** trees satisfying that invariant are determined by their in-order (priority, item) list - no distinctness needed: the shape is history independent also with ties *)
Theorem c16_canonical_ties : forall (T : Type) (t1 t2 : @tree T), HeapS t1 -> HeapS t2 -> inorder t1 = inorder t2 -> t1 = t2.
Proof. exact @canonical_ties. Qed.

(** such a tree IS the Cartesian tree [cart] of its in-order list *)
Theorem c16_cartesian : forall (T : Type) (t : @tree T), HeapS t -> t = cart (inorder t).
Proof. exact @cartesian. Qed.

(** the exact invariant implies plain heap order *)
Theorem c16_heap_strict_heap : forall (T : Type) (t : @tree T), HeapS t -> Heap t.
Proof. exact @HeapS_Heap. Qed.

(** history level, any lawful item: every live treap satisfies the exact heap invariant, denotes the values of the (priority, value) list machine and carries IN ORDER exactly that machine's priorities - priorities are created once, never changed, and travel with their elements *)
Theorem c16_history_priorities : forall (T M A : Type) (update : T -> option T -> option T -> T) (push : T -> option T -> option T -> T * option T * option T) (size : T -> Z) (modify : M -> T -> T) (elem : T -> Z) (agg : T -> A) (act : M -> Z -> Z) (aggf : list Z -> A) (Pending : T -> list M -> Prop), lawful update push size modify elem agg act aggf Pending -> forall (mk : Z -> T) (md : amod -> M) (actc : amod -> Z -> Z), (forall v : Z, Fresh size elem agg aggf Pending (mk v)) -> (forall v : Z, elem (mk v) = v) -> (forall (m : amod) (e : Z), act (md m) e = actc m e) -> forall (ps : list Z) (ops : list cop) (want : list (list pv)), prun actc [] ps ops = Some want -> Forall2 (fun t pxs => HeapS t /\ Rep size elem agg act aggf Pending t (map snd pxs) /\ prios t = map fst pxs) (run_final update push size modify elem agg ps (map (conv modify mk md) ops)) want.
Proof. exact @history_inv. Qed.

(** on every correspondence case, agreement with the model implies the specification check (heap order, priorities only moved, Cartesian shape): the batch lemma about the model carries the specification to the implementation by proof *)
Theorem c16_model_check_spec_check : forall c : case, model_check c = true -> spec_check c = true.
Proof. exact model_check_spec_check16. Qed.

(** PARTIAL (as c16_height_partial): the tighter bound of the implementation-level search, 3*log2(n+1)+12 (for independent uniform priorities a larger height has probability < 3e-6 for n <= 2^21), holds on the model with the modelled generator (seed 42) for six families - sorted appends, front inserts, insert + split-and-swap rotation, alternating ends, middle inserts, merge-building from one-node treaps on alternating sides - with n = 2^k, k <= 10 (the independent re-check by coqchk evaluates this without the VM, about 25 times slower); the trees are heap-ordered and have n nodes. Missing: other n, other families, other seeds *)
Theorem c16_height_tight_partial : forall k : Z, 0 <= k <= 10 -> let n := 2 ^ k in Forall (fun step => height (fam step n) <= 3 * Z.log2 (n + 1) + 12 /\ Heap (fam step n) /\ tsize isize (fam step n) = n) [step_append; step_front; step_rotate; step_deque; step_middle; step_mergebuild].
Proof. exact height_tight_partial. Qed.
