(** C16 — proofs: heap order is preserved by every operation of the treap model (for arbitrary item
    functions), priorities are only moved, heap-ordered trees are determined by their in-order list. *)
From Coq Require Import ZArith List Bool Lia.
From RlibV Require Import C03.Model C16.Model.
Import ListNotations.
Open Scope Z_scope.

Lemma app_cons_eq {X} (l1 : list X) : forall r1 l2 r2 a b, l1 ++ a :: r1 = l2 ++ b :: r2 ->
  (l1 = l2 /\ a = b /\ r1 = r2)
  \/ (exists m, l2 = l1 ++ a :: m /\ r1 = m ++ b :: r2)
  \/ (exists m, l1 = l2 ++ b :: m /\ r2 = m ++ a :: r1).
Proof.
  induction l1 as [|c l1 IH]; intros r1 [|d l2] r2 a b H; simpl in H.
  - injection H as -> ->. auto.
  - injection H as -> ->. right. left. exists l2. auto.
  - injection H as -> <-. right. right. exists l1. auto.
  - injection H as -> H. destruct (IH _ _ _ _ _ H) as [(-> & -> & ->)|[(m & -> & ->)|(m & -> & ->)]]; auto.
    + right. left. exists m. auto.
    + right. right. exists m. auto.
Qed.

Lemma NoDup_app_l {X} (a b : list X) : NoDup (a ++ b) -> NoDup a.
Proof.
  induction a as [|x a IH]; simpl; intros H; [constructor|]. inversion H as [|? ? Hn Hd]; subst.
  constructor; auto. intro Hi. apply Hn. apply in_or_app. auto.
Qed.
Lemma NoDup_app_r {X} (a b : list X) : NoDup (a ++ b) -> NoDup b.
Proof. induction a as [|x a IH]; simpl; intros H; auto. inversion H; auto. Qed.

Section Heap.
Set Default Proof Using "Type".
Context {T M V A : Type}.
Variable update : T -> option T -> option T -> T.
Variable push : T -> option T -> option T -> T * option T * option T.
Variable size : T -> Z.
Variable modify : M -> T -> T.
Variable elem : T -> V.
Variable agg : T -> A.
Notation tree := (@tree T).

Definition root_ge (p : Z) (t : tree) : Prop := match t with E => True | Nd _ _ q _ => p <= q end.
(** min-heap on priorities along every edge *)
Fixpoint Heap (t : tree) : Prop :=
  match t with E => True | Nd l _ p r => root_ge p l /\ root_ge p r /\ Heap l /\ Heap r end.
(** in-order priorities *)
Definition prios (t : tree) : list Z := map fst (inorder t).

Lemma heapb_Heap t : heapb t = true <-> Heap t.
Proof. clear update size push elem agg V A.
  induction t as [|l IHl x p r IHr]; simpl; [tauto|].
  rewrite !andb_true_iff, IHl, IHr.
  assert (Hg : forall u, root_geb p u = true <-> root_ge p u) by (intros [|? ? q ?]; simpl; [tauto|apply Z.leb_le]).
  rewrite !Hg. tauto.
Qed.

Lemma root_ge_mono p q t : p <= q -> root_ge q t -> root_ge p t.
Proof. destruct t; simpl; auto. lia. Qed.
Lemma root_ge_set p t (o : option T) : root_ge p (set_item t o) <-> root_ge p t.
Proof. clear update size push elem agg V A. destruct t, o; simpl; tauto. Qed.
Lemma Heap_set t (o : option T) : Heap (set_item t o) <-> Heap t.
Proof. clear update size push elem agg V A. destruct t, o; simpl; tauto. Qed.
Lemma prios_set t (o : option T) : prios (set_item t o) = prios t.
Proof. destruct t, o; unfold prios; simpl; auto. rewrite !map_app. reflexivity. Qed.
Lemma prios_Nd l x p r : prios (Nd l x p r) = prios l ++ p :: prios r.
Proof. unfold prios. simpl. now rewrite map_app. Qed.

(** ---------- merge ---------- *)
Lemma merge_heap a : forall oa b ob, Heap a -> Heap b ->
  Heap (merge update push a oa b ob)
  /\ (forall p, root_ge p a -> root_ge p b -> root_ge p (merge update push a oa b ob))
  /\ prios (merge update push a oa b ob) = prios a ++ prios b.
Proof. clear size elem agg V A.
  induction a as [|al IHal ax0 ap ar IHar]; intros oa b ob Ha Hb.
  - simpl. rewrite Heap_set, prios_set. repeat split; auto. intros p _ H. now apply root_ge_set.
  - revert ob Hb. induction b as [|bl IHbl bx0 bp br IHbr]; intros ob Hb.
    + simpl in *. rewrite app_nil_r. repeat split; try tauto.
      unfold prios. simpl. now rewrite !map_app.
    + cbn [merge]. destruct Ha as (Ha1 & Ha2 & Ha3 & Ha4). destruct (ap <? bp) eqn:Hlt.
      * apply Z.ltb_lt in Hlt.
        destruct (push (ovr oa ax0) (item al) (item ar)) as [[ax' ol] or] eqn:Epush.
        destruct (IHar or (Nd bl bx0 bp br) ob Ha4 Hb) as (H1 & H2 & H3).
        split; [|split].
        -- simpl. rewrite root_ge_set, Heap_set. repeat split; auto; apply H2; [auto | simpl; lia].
        -- intros p Hp _. exact Hp.
        -- rewrite !prios_Nd, H3, prios_set, prios_Nd. now rewrite <- app_assoc.
      * apply Z.ltb_ge in Hlt. destruct Hb as (Hb1 & Hb2 & Hb3 & Hb4).
        destruct (push (ovr ob bx0) (item bl) (item br)) as [[bx' ol] or] eqn:Epush.
        destruct (IHbl ol Hb3) as (H1 & H2 & H3).
        split; [|split].
        -- simpl. rewrite root_ge_set, Heap_set. repeat split; auto; apply H2; auto.
        -- intros p _ Hp. exact Hp.
        -- rewrite prios_Nd.
           match goal with |- prios ?m ++ _ = _ => change m with (merge update push (Nd al ax0 ap ar) oa bl ol) end.
           rewrite H3. rewrite prios_set, !prios_Nd. now rewrite <- !app_assoc.
Qed.

(** ---------- split_at / split_by ---------- *)
Lemma split_at_heap t : forall ot k a b, Heap t -> split_at update push size t ot k = (a, b) ->
  Heap a /\ Heap b /\ (forall p, root_ge p t -> root_ge p a /\ root_ge p b) /\ prios a ++ prios b = prios t.
Proof.
  induction t as [|l IHl x0 q r IHr]; intros ot k a b Ht HS.
  - simpl in HS. injection HS as <- <-. simpl. auto.
  - cbn [split_at] in HS. destruct Ht as (H1 & H2 & H3 & H4).
    destruct (push (ovr ot x0) (item l) (item r)) as [[x' ol] or] eqn:Epush.
    destruct (osize size (item (set_item l ol)) <? k).
    + destruct (split_at update push size r or (k - osize size (item (set_item l ol)) - 1)) as [a0 b0] eqn:Er.
      injection HS as <- <-. destruct (IHr _ _ _ _ H4 Er) as (Ia & Ib & Ip & Ipr).
      destruct (Ip q H2) as [Ipa Ipb].
      split; [|split; [|split]].
      * simpl. rewrite root_ge_set, Heap_set. auto.
      * exact Ib.
      * intros p Hp. simpl in Hp. split; [exact Hp|]. eapply root_ge_mono; eauto.
      * rewrite !prios_Nd, prios_set, <- Ipr. now rewrite <- app_assoc.
    + destruct (split_at update push size l ol k) as [a0 b0] eqn:El.
      injection HS as <- <-. destruct (IHl _ _ _ _ H3 El) as (Ia & Ib & Ip & Ipr).
      destruct (Ip q H1) as [Ipa Ipb].
      split; [|split; [|split]].
      * exact Ia.
      * simpl. rewrite root_ge_set, Heap_set. auto.
      * intros p Hp. simpl in Hp. split; [|exact Hp]. eapply root_ge_mono; eauto.
      * rewrite !prios_Nd, prios_set, <- Ipr. now rewrite <- app_assoc.
Qed.

Lemma split_by_heap (q : T -> bool) t : forall ot a b, Heap t -> split_by update push q t ot = (a, b) ->
  Heap a /\ Heap b /\ (forall p, root_ge p t -> root_ge p a /\ root_ge p b) /\ prios a ++ prios b = prios t.
Proof.
  induction t as [|l IHl x0 pq r IHr]; intros ot a b Ht HS.
  - simpl in HS. injection HS as <- <-. simpl. auto.
  - cbn [split_by] in HS. destruct Ht as (H1 & H2 & H3 & H4).
    destruct (push (ovr ot x0) (item l) (item r)) as [[x' ol] or] eqn:Epush.
    destruct (q x').
    + destruct (split_by update push q r or) as [a0 b0] eqn:Er.
      injection HS as <- <-. destruct (IHr _ _ _ H4 Er) as (Ia & Ib & Ip & Ipr).
      destruct (Ip pq H2) as [Ipa Ipb].
      split; [|split; [|split]].
      * simpl. rewrite root_ge_set, Heap_set. auto.
      * exact Ib.
      * intros p Hp. simpl in Hp. split; [exact Hp|]. eapply root_ge_mono; eauto.
      * rewrite !prios_Nd, prios_set, <- Ipr. now rewrite <- app_assoc.
    + destruct (split_by update push q l ol) as [a0 b0] eqn:El.
      injection HS as <- <-. destruct (IHl _ _ _ H3 El) as (Ia & Ib & Ip & Ipr).
      destruct (Ip pq H1) as [Ipa Ipb].
      split; [|split; [|split]].
      * exact Ia.
      * simpl. rewrite root_ge_set, Heap_set. auto.
      * intros p Hp. simpl in Hp. split; [|exact Hp]. eapply root_ge_mono; eauto.
      * rewrite !prios_Nd, prios_set, <- Ipr. now rewrite <- app_assoc.
Qed.

(** ---------- the walkers keep shape and priorities ---------- *)
Lemma collect_heap t : forall ot, 
  (Heap t -> Heap (fst (collect push t ot))) /\ (forall p, root_ge p t -> root_ge p (fst (collect push t ot)))
  /\ prios (fst (collect push t ot)) = prios t.
Proof.
  induction t as [|l IHl x0 q r IHr]; intros ot; [simpl; auto|].
  cbn [collect]. destruct (push (ovr ot x0) (item l) (item r)) as [[x' ol] or].
  destruct (IHl ol) as (L1 & L2 & L3). destruct (IHr or) as (R1 & R2 & R3).
  destruct (collect push l ol) as [l' ls]. destruct (collect push r or) as [r' rs]. simpl in *.
  split; [|split]; [intros (H1 & H2 & H3 & H4); cbn [Heap]; repeat split; auto|auto|]. now rewrite !prios_Nd, L3, R3.
Qed.
Lemma first_heap t : forall ot,
  (Heap t -> Heap (fst (first push t ot))) /\ (forall p, root_ge p t -> root_ge p (fst (first push t ot)))
  /\ prios (fst (first push t ot)) = prios t.
Proof. clear update size elem agg V A.
  induction t as [|l IHl x0 q r IHr]; intros ot; [simpl; auto|].
  cbn [first]. destruct l as [|ll lx lp lr]; [simpl; repeat split; try tauto; auto; unfold prios; simpl; rewrite ?map_app; auto|].
  destruct (push (ovr ot x0) (item (Nd ll lx lp lr)) (item r)) as [[x' ol] or].
  destruct (IHl ol) as (L1 & L2 & L3).
  destruct (first push (Nd ll lx lp lr) ol) as [l' res]. simpl fst in *.
  split; [|split].
  - intros (H1 & H2 & H3 & H4). cbn [Heap]. rewrite root_ge_set, Heap_set. auto.
  - auto.
  - rewrite (prios_Nd l' x'), L3, prios_set. now rewrite (prios_Nd (Nd ll lx lp lr) x0 q r).
Qed.
Lemma last_heap t : forall ot,
  (Heap t -> Heap (fst (last push t ot))) /\ (forall p, root_ge p t -> root_ge p (fst (last push t ot)))
  /\ prios (fst (last push t ot)) = prios t.
Proof. clear update size elem agg V A.
  induction t as [|l IHl x0 q r IHr]; intros ot; [simpl; auto|].
  cbn [last]. destruct r as [|rl rx rp rr]; [simpl; repeat split; try tauto; auto; unfold prios; simpl; rewrite ?map_app; auto|].
  destruct (push (ovr ot x0) (item l) (item (Nd rl rx rp rr))) as [[x' ol] or].
  destruct (IHr or) as (L1 & L2 & L3).
  destruct (last push (Nd rl rx rp rr) or) as [r' res]. simpl fst in *.
  split; [|split].
  - intros (H1 & H2 & H3 & H4). cbn [Heap]. rewrite root_ge_set, Heap_set. auto.
  - auto.
  - rewrite (prios_Nd _ x' q r'), L3, prios_set. now rewrite (prios_Nd l x0 q (Nd rl rx rp rr)).
Qed.

Lemma single_heap x p : Heap (single x p).
Proof. simpl. auto. Qed.

Lemma insert_at_heap t k x p : Heap t -> Heap (insert_at update push size t k x p)
  /\ exists l r, prios t = l ++ r /\ prios (insert_at update push size t k x p) = l ++ p :: r.
Proof.
  intros Ht. unfold insert_at. destruct (split_at update push size t None k) as [l r] eqn:ES.
  destruct (split_at_heap t None k l r Ht ES) as (Hl & Hr & _ & Hp).
  destruct (merge_heap l None (single x p) None Hl (single_heap x p)) as (H1 & _ & P1).
  destruct (merge_heap _ None r None H1 Hr) as (H2 & _ & P2).
  split; [exact H2|]. exists (prios l), (prios r). split; [now rewrite Hp|].
  rewrite P2, P1. change (prios (single x p)) with [p]. now rewrite <- app_assoc.
Qed.

Lemma remove_at_heap t k : Heap t -> Heap (fst (remove_at update push size t k))
  /\ exists l m r, prios t = l ++ m ++ r /\ prios (fst (remove_at update push size t k)) = l ++ r.
Proof.
  intros Ht. unfold remove_at. destruct (split_at update push size t None k) as [t1 t23] eqn:E1.
  destruct (split_at update push size t23 None 1) as [t2 t3] eqn:E2.
  destruct (split_at_heap t None k _ _ Ht E1) as (H1 & H23 & _ & P1).
  destruct (split_at_heap t23 None 1 _ _ H23 E2) as (H2 & H3 & _ & P2).
  destruct (merge_heap t1 None t3 None H1 H3) as (Hm & _ & Pm). simpl.
  split; [exact Hm|]. exists (prios t1), (prios t2), (prios t3). now rewrite Pm, P2, P1.
Qed.

Lemma modify_root_heap m t : (Heap t -> Heap (modify_root modify m t)) /\ prios (modify_root modify m t) = prios t.
Proof. destruct t; simpl; auto. split; auto. unfold prios. simpl. now rewrite !map_app. Qed.

(** ---------- every step of every history ---------- *)
Lemma Forall_remove_nth {X} (P : X -> Prop) i l : Forall P l -> Forall P (remove_nth i l).
Proof. intros H. revert i. induction H; intros [|i]; simpl; auto. Qed.
Lemma Forall_replace_nth {X} (P : X -> Prop) i y l : Forall P l -> P y -> Forall P (replace_nth i y l).
Proof. intros H Hy. revert i. induction H; intros [|i]; simpl; auto. Qed.
Lemma Forall_nth {X} (P : X -> Prop) i l x : Forall P l -> nth_error l i = Some x -> P x.
Proof. intros H Hn. apply nth_error_In in Hn. rewrite Forall_forall in H. auto. Qed.
Lemma Forall_snoc {X} (P : X -> Prop) l x : Forall P l -> P x -> Forall P (l ++ [x]).
Proof. intros. apply Forall_app. auto. Qed.
Lemma Forall_snoc2 {X} (P : X -> Prop) l x y : Forall P l -> P x -> P y -> Forall P (l ++ [x; y]).
Proof. intros. apply Forall_app. auto. Qed.

Lemma step_heap st ps o : Forall Heap st -> Forall Heap (fst (fst (step update push size modify elem agg st ps o))).
Proof.
  intros H. destruct o; simpl.
  - apply Forall_snoc; simpl; auto.
  - destruct (next_prio ps). simpl. apply Forall_snoc; simpl; auto.
  - unfold take2. destruct (Nat.eqb i j); [exact H|].
    destruct (nth_error st i) as [a|] eqn:Ei; [|exact H]. destruct (nth_error st j) as [b|] eqn:Ej; [|exact H].
    simpl. apply Forall_snoc; [now do 2 apply Forall_remove_nth|].
    apply merge_heap; eapply Forall_nth; eauto.
  - unfold take1. destruct (nth_error st i) as [t|] eqn:Ei; [|exact H].
    destruct (split_at update push size t None k) as [a b] eqn:ES. simpl.
    destruct (split_at_heap t None k a b (Forall_nth _ _ _ _ H Ei) ES) as (Ha & Hb & _).
    apply Forall_snoc2; auto. now apply Forall_remove_nth.
  - unfold take1. destruct (nth_error st i) as [t|] eqn:Ei; [|exact H].
    destruct (split_by update push (fun x => q (elem x)) t None) as [a b] eqn:ES. simpl.
    destruct (split_by_heap _ t None a b (Forall_nth _ _ _ _ H Ei) ES) as (Ha & Hb & _).
    apply Forall_snoc2; auto. now apply Forall_remove_nth.
  - destruct (nth_error st i) as [t|] eqn:Ei; [|exact H]. destruct (next_prio ps). simpl.
    apply Forall_replace_nth; auto. apply insert_at_heap. eapply Forall_nth; eauto.
  - destruct (nth_error st i) as [t|] eqn:Ei; [|exact H].
    pose proof (remove_at_heap t k (Forall_nth _ _ _ _ H Ei)) as [Hr _].
    destruct (remove_at update push size t k) as [t' res]. simpl in *.
    apply Forall_replace_nth; auto.
  - destruct (nth_error st i) as [t|] eqn:Ei; [|exact H]. simpl.
    apply Forall_replace_nth; auto. apply modify_root_heap. eapply Forall_nth; eauto.
  - destruct (nth_error st i) as [t|] eqn:Ei; [|exact H].
    pose proof (first_heap t None) as (Hf & _). destruct (first push t None) as [t' res]. simpl in *.
    apply Forall_replace_nth; auto. apply Hf. eapply Forall_nth; eauto.
  - destruct (nth_error st i) as [t|] eqn:Ei; [|exact H].
    pose proof (last_heap t None) as (Hf & _). destruct (last push t None) as [t' res]. simpl in *.
    apply Forall_replace_nth; auto. apply Hf. eapply Forall_nth; eauto.
  - destruct (nth_error st i) as [t|] eqn:Ei; [|exact H].
    pose proof (collect_heap t None) as (Hf & _). destruct (collect push t None) as [t' res]. simpl in *.
    apply Forall_replace_nth; auto. apply Hf. eapply Forall_nth; eauto.
  - destruct (nth_error st i); exact H.
  - destruct (nth_error st i); exact H.
  - destruct (nth_error st i) as [t|] eqn:Ei; [|exact H]. destruct (nth_error st j) as [tj|] eqn:Ej; [|exact H].
    pose proof (remove_at_heap t k (Forall_nth _ _ _ _ H Ei)) as [Hr _].
    destruct (remove_at update push size t k) as [t' res]. simpl in Hr.
    assert (H1 : Forall Heap (replace_nth i t' st)) by (apply Forall_replace_nth; auto).
    destruct res as [x|]; [|exact H1].
    destruct (nth_error (replace_nth i t' st) j) as [u|] eqn:Eu; [|exact H1].
    destruct (next_prio ps). simpl. apply Forall_replace_nth; auto. apply insert_at_heap. eapply Forall_nth; eauto.
Qed.

Lemma run_heap ops : forall st ps, Forall Heap st -> Forall Heap (fst (fst (run update push size modify elem agg st ps ops))).
Proof.
  induction ops as [|o ops IH]; intros st ps H; simpl; auto.
  pose proof (step_heap st ps o H) as H1.
  destruct (step update push size modify elem agg st ps o) as [[st1 ps1] out1]. simpl in H1.
  specialize (IH st1 ps1 H1). destruct (run update push size modify elem agg st1 ps1 ops) as [[st2 ps2] outs]. exact IH.
Qed.

Theorem heap_preserved ps ops : Forall Heap (run_final update push size modify elem agg ps ops).
Proof. unfold run_final. apply run_heap. constructor. Qed.

(** ---------- canonical shape ---------- *)
Lemma Heap_all_ge t : forall p, Heap t -> root_ge p t -> Forall (fun q => p <= fst q) (inorder t).
Proof.
  induction t as [|l IHl x q r IHr]; intros p Ht Hp; simpl; [constructor|].
  destruct Ht as (H1 & H2 & H3 & H4). simpl in Hp.
  apply Forall_app. split; [|constructor].
  - apply IHl; auto. eapply root_ge_mono; eauto.
  - simpl. exact Hp.
  - apply IHr; auto. eapply root_ge_mono; eauto.
Qed.

Theorem canonical (t1 : tree) : forall t2, Heap t1 -> Heap t2 -> inorder t1 = inorder t2 ->
  NoDup (map fst (inorder t1)) -> t1 = t2.
Proof.
  induction t1 as [|l1 IHl x1 p1 r1 IHr]; intros t2 H1 H2 HE HN.
  - destruct t2; [reflexivity|]. simpl in HE. now apply app_cons_not_nil in HE.
  - destruct t2 as [|l2 x2 p2 r2]; [simpl in HE; symmetry in HE; now apply app_cons_not_nil in HE|].
    simpl in HE, HN. destruct H1 as (A1 & A2 & A3 & A4). destruct H2 as (B1 & B2 & B3 & B4).
    destruct (app_cons_eq _ _ _ _ _ _ HE) as [(El & Ex & Er)|[(m & El & Er)|(m & El & Er)]].
    + injection Ex as -> ->. rewrite map_app in HN. simpl in HN.
      f_equal.
      * apply IHl; auto. now apply NoDup_app_l in HN.
      * apply IHr; auto. apply NoDup_app_r in HN. now inversion HN.
    + exfalso.
      pose proof (Heap_all_ge l2 p2 B3 B1) as F2. rewrite El in F2.
      apply Forall_app in F2. destruct F2 as [_ F2]. inversion F2 as [|? ? F2a _]; subst. simpl in F2a.
      pose proof (Heap_all_ge r1 p1 A4 A2) as F1. rewrite Er in F1.
      apply Forall_app in F1. destruct F1 as [_ F1]. inversion F1 as [|? ? F1a _]; subst. simpl in F1a.
      assert (p1 = p2) by lia. subst p2.
      rewrite Er in HN. rewrite map_app in HN. simpl in HN. apply NoDup_remove_2 in HN. apply HN.
      rewrite in_app_iff. right. rewrite map_app, in_app_iff. right. simpl. auto.
    + exfalso.
      pose proof (Heap_all_ge l1 p1 A3 A1) as F1. rewrite El in F1.
      apply Forall_app in F1. destruct F1 as [_ F1]. inversion F1 as [|? ? F1a _]; subst. simpl in F1a.
      pose proof (Heap_all_ge r2 p2 B4 B2) as F2. rewrite Er in F2.
      apply Forall_app in F2. destruct F2 as [_ F2]. inversion F2 as [|? ? F2a _]; subst. simpl in F2a.
      assert (p1 = p2) by lia. subst p2.
      rewrite El in HN. rewrite !map_app in HN. simpl in HN. rewrite <- app_assoc in HN. simpl in HN.
      apply NoDup_remove_2 in HN. apply HN.
      rewrite !in_app_iff. right. right. simpl. auto.
Qed.
End Heap.

(** ---------- per-operation summary: heap order kept, in-order priorities only moved ---------- *)
Section Moved.
Context {T M : Type}.
Variable update : T -> option T -> option T -> T.
Variable push : T -> option T -> option T -> T * option T * option T.
Variable size : T -> Z.
Variable modify : M -> T -> T.

Theorem ops_heap_prios :
  (forall a b, Heap a -> Heap b ->
     Heap (merge update push a None b None) /\ prios (merge update push a None b None) = prios a ++ prios b)
  /\ (forall t k a b, Heap t -> split_at update push size t None k = (a, b) ->
     Heap a /\ Heap b /\ prios a ++ prios b = prios t)
  /\ (forall q t a b, Heap t -> split_by update push q t None = (a, b) ->
     Heap a /\ Heap b /\ prios a ++ prios b = prios t)
  /\ (forall t, Heap t ->
     (Heap (fst (first push t None)) /\ prios (fst (first push t None)) = prios t)
     /\ (Heap (fst (last push t None)) /\ prios (fst (last push t None)) = prios t)
     /\ (Heap (fst (collect push t None)) /\ prios (fst (collect push t None)) = prios t))
  /\ (forall t k x p, Heap t -> Heap (insert_at update push size t k x p)
     /\ exists l r, prios t = l ++ r /\ prios (insert_at update push size t k x p) = l ++ p :: r)
  /\ (forall t k, Heap t -> Heap (fst (remove_at update push size t k))
     /\ exists l m r, prios t = l ++ m ++ r /\ prios (fst (remove_at update push size t k)) = l ++ r)
  /\ (forall m t, Heap t -> Heap (modify_root modify m t) /\ prios (modify_root modify m t) = prios t).
Proof.
  repeat apply conj.
  - intros a b Ha Hb. destruct (merge_heap update push a None b None Ha Hb) as (H1 & _ & H3). auto.
  - intros t k a b Ht HS. destruct (split_at_heap update push size t None k a b Ht HS) as (H1 & H2 & _ & H4). auto.
  - intros q t a b Ht HS. destruct (split_by_heap update push q t None a b Ht HS) as (H1 & H2 & _ & H4). auto.
  - intros t Ht.
    destruct (first_heap push t None) as (F1 & _ & F3).
    destruct (last_heap push t None) as (L1 & _ & L3).
    destruct (collect_heap push t None) as (C1 & _ & C3). auto 10.
  - intros. now apply insert_at_heap.
  - intros. now apply remove_at_heap.
  - intros m t Ht. destruct (modify_root_heap modify m t). auto.
Qed.
End Moved.

(** ---------- height: finite computations for the named adversarial families ---------- *)
Definition height_ks : list Z := [0; 1; 2; 3; 4; 5; 6; 7; 8; 9; 10; 11; 12; 13; 14].
Definition fam_all_ok (k : Z) : bool :=
  fam_ok step_append (2 ^ k) && fam_ok step_front (2 ^ k) && fam_ok step_rotate (2 ^ k).
(** one evaluation by the VM when the proof term is checked (about one minute) *)
Lemma height_check : forallb fam_all_ok height_ks = true.
Proof. vm_cast_no_check (@eq_refl bool true). Qed.

Theorem height_partial : forall k : Z, 0 <= k <= 14 ->
  let n := 2 ^ k in
  (height (fam step_append n) <= 5 * Z.log2 (n + 1) + 20 /\ Heap (fam step_append n) /\ tsize isize (fam step_append n) = n)
  /\ (height (fam step_front n) <= 5 * Z.log2 (n + 1) + 20 /\ Heap (fam step_front n) /\ tsize isize (fam step_front n) = n)
  /\ (height (fam step_rotate n) <= 5 * Z.log2 (n + 1) + 20 /\ Heap (fam step_rotate n) /\ tsize isize (fam step_rotate n) = n).
Proof.
  intros k Hk n.
  assert (Hin : In k height_ks) by (unfold height_ks; simpl; lia).
  pose proof (proj1 (forallb_forall fam_all_ok height_ks) height_check k Hin) as H.
  unfold fam_all_ok, fam_ok, height_bound in H. fold n in H.
  rewrite !andb_true_iff, !Z.leb_le, !Z.eqb_eq, !heapb_Heap in H. tauto.
Qed.
