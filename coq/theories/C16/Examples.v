(** C16 — non-vacuity: concrete instances of every hypothesis; the model and the generator run on literals. *)
From Coq Require Import ZArith List Bool Lia.
From RlibV Require Import C03.Model C03.Corr C16.Model C16.ModelFam C16.Corr C16.Proofs C16.Properties.
Import ListNotations.
Open Scope Z_scope.

(** the first draws of the modelled generator (seed 42); the executor observes the same numbers in the
    public [priority] fields of natively created nodes *)
Example ex_lcg : lcg_prios 3 lcg_seed = [379180124; 4294643145; 2166684910].
Proof. vm_compute. reflexivity. Qed.

(** sorted appends vs. a different history reaching the same sequence with the same (distinct) priorities:
    both are heap-ordered, have the same in-order list, hence (c16_canonical) are the same tree *)
Definition h1 : list cop := [CFrom 1 []; CInsert 0 1 2 []; CInsert 0 2 3 []; CInsert 0 3 4 []].
Definition h2 : list cop := [CFrom 3 []; CFrom 1 []; CFrom 4 []; CFrom 2 []; CMerge 1 3; CMerge 0 1; CMerge 0 1].
Definition t1 := nth 0 (final0 [30; 10; 40; 20] h1) E.
Definition t2 := nth 0 (final0 [40; 30; 20; 10] h2) E.
Example ex_heap : Heap t1 /\ Heap t2.
Proof. split; apply heapb_Heap; vm_compute; reflexivity. Qed.
Example ex_inorder : map (fun pi => (fst pi, ix (snd pi))) (inorder t1) = [(30, 1); (10, 2); (40, 3); (20, 4)]
                     /\ inorder (tmap ix t1) = inorder (tmap ix t2).
Proof. split; vm_compute; reflexivity. Qed.
Example ex_nodup : NoDup (map fst (inorder (tmap ix t1))).
Proof. vm_compute. repeat constructor; simpl; intuition discriminate. Qed.
Example ex_canonical : tmap ix t1 = tmap ix t2.
Proof.
  apply c16_canonical.
  - apply heapb_Heap. vm_compute. reflexivity.
  - apply heapb_Heap. vm_compute. reflexivity.
  - apply ex_inorder.
  - apply ex_nodup.
Qed.
(** ... and it is the Cartesian tree of the priority sequence *)
Example ex_cart : tmap (fun _ => tt) t1 = cart [(30, tt); (10, tt); (40, tt); (20, tt)].
Proof. vm_compute. reflexivity. Qed.

(** all priorities equal: still a heap (c16_heap_preserved needs no hypothesis on the stream) *)
Example ex_ties : Forall Heap (final0 [7; 7; 7; 7] h1).
Proof. unfold final0, run0. apply (c16_heap_preserved _ _ _ _ isz_update isz_push isize isz_modify ix ism). Qed.

(** c16_height_partial at k = 3 *)
Example ex_height : height (fam step_append (2 ^ 3)) <= 5 * Z.log2 (2 ^ 3 + 1) + 20.
Proof. assert (Hk : 0 <= 3 <= 14) by lia. destruct (c16_height_partial 3 Hk) as ((H1 & _) & _). exact H1. Qed.
Example ex_height_value : height (fam step_append 8) = 5 /\ height (fam step_rotate 1024) = 23.
Proof. split; vm_compute; reflexivity. Qed.

(** c16_height_tight_partial at k = 4: the middle-insert family; the heights the executor reports for the same families at 4096 *)
Example ex_height_tight : height (fam step_middle (2 ^ 4)) <= 3 * Z.log2 (2 ^ 4 + 1) + 12.
Proof.
  assert (Hk : 0 <= 4 <= 10) by lia.
  pose proof (c16_height_tight_partial 4 Hk) as H. cbv zeta in H.
  rewrite Forall_forall in H.
  assert (Hin : In step_middle [step_append; step_front; step_rotate; step_deque; step_middle; step_mergebuild])
    by (do 4 right; left; reflexivity).
  destruct (H step_middle Hin) as (H1 & _).
  exact H1.
Qed.
Example ex_height_tight_values : (height (fam step_deque 4096), height (fam step_middle 4096), height (fam step_mergebuild 4096)) = (25, 25, 25).
Proof. vm_compute. reflexivity. Qed.
