(** C16 — the tighter height bound of the implementation-level search, evaluated on the model for six families. *)
From Coq Require Import ZArith NArith List Bool Lia.
From RlibV Require Import C03.Model C16.Model C16.Proofs C16.ModelFam.
Import ListNotations.
Open Scope Z_scope.

Definition tight_ks : list Z := [0; 1; 2; 3; 4; 5; 6; 7; 8; 9; 10].
(** one evaluation by the VM when the proof term is checked (a few seconds) *)
Lemma tight_check : forallb tight_all tight_ks = true.
Proof. vm_cast_no_check (@eq_refl bool true). Qed.

Theorem height_tight_partial : forall k : Z, 0 <= k <= 10 ->
  let n := 2 ^ k in
  Forall (fun step => height (fam step n) <= 3 * Z.log2 (n + 1) + 12 /\ Heap (fam step n) /\ tsize isize (fam step n) = n)
         [step_append; step_front; step_rotate; step_deque; step_middle; step_mergebuild].
Proof.
  intros k Hk n.
  assert (Hin : In k tight_ks) by (unfold tight_ks; simpl; lia).
  pose proof (proj1 (forallb_forall tight_all tight_ks) tight_check k Hin) as H.
  unfold tight_all in H. fold n in H.
  apply Forall_forall. intros step Hs.
  pose proof (proj1 (forallb_forall (fam_tight n) tight_steps) H step Hs) as H1.
  unfold fam_tight, tight_bound in H1.
  rewrite !andb_true_iff, Z.leb_le, Z.eqb_eq, heapb_Heap in H1. tauto.
Qed.
