(** C16 — the exact invariant of the code ("ties go right"): a node's priority is <= its left child's and
    < its right child's.  It is preserved by every operation, and it determines the tree from its in-order
    list WITHOUT any distinctness assumption: the shape is the Cartesian tree [cart] also in the presence of ties. *)
From Coq Require Import ZArith List Bool Lia.
From RlibV Require Import C03.Model C16.Model C16.Proofs.
Import ListNotations.
Open Scope Z_scope.

Section Strict.
Set Default Proof Using "Type".
Context {T M V A : Type}.
Variable update : T -> option T -> option T -> T.
Variable push : T -> option T -> option T -> T * option T * option T.
Variable size : T -> Z.
Variable modify : M -> T -> T.
Variable elem : T -> V.
Variable agg : T -> A.
Notation tree := (@tree T).

Definition root_gt (p : Z) (t : tree) : Prop := match t with E => True | Nd _ _ q _ => p < q end.
Fixpoint HeapS (t : tree) : Prop :=
  match t with E => True | Nd l _ p r => root_ge p l /\ root_gt p r /\ HeapS l /\ HeapS r end.

Lemma root_gt_set p t (o : option T) : root_gt p (set_item t o) <-> root_gt p t.
Proof. clear. destruct t, o; simpl; tauto. Qed.
Lemma HeapS_set t (o : option T) : HeapS (set_item t o) <-> HeapS t.
Proof. clear. destruct t, o; simpl; tauto. Qed.
Lemma root_gt_mono p q t : p <= q -> root_gt q t -> root_gt p t.
Proof. clear. destruct t; simpl; auto. lia. Qed.
Lemma root_ge_gt p q t : p < q -> root_ge q t -> root_gt p t.
Proof. clear. destruct t; simpl; auto. lia. Qed.
Lemma root_gt_ge p t : root_gt p t -> root_ge p t.
Proof. clear. destruct t; simpl; auto. lia. Qed.
Lemma HeapS_Heap t : HeapS t -> Heap t.
Proof. clear. induction t as [|l IHl x p r IHr]; simpl; auto. intros (H1 & H2 & H3 & H4). auto using root_gt_ge. Qed.

Lemma merge_heapS a : forall oa b ob, HeapS a -> HeapS b ->
  HeapS (merge update push a oa b ob)
  /\ (forall p, root_ge p a -> root_ge p b -> root_ge p (merge update push a oa b ob))
  /\ (forall p, root_gt p a -> root_gt p b -> root_gt p (merge update push a oa b ob)).
Proof.
  clear size modify elem agg V A M.
  induction a as [|al IHal ax0 ap ar IHar]; intros oa b ob Ha Hb.
  - simpl. rewrite HeapS_set. repeat split; auto.
    + intros p _ H. now apply root_ge_set.
    + intros p _ H. now apply root_gt_set.
  - revert ob Hb. induction b as [|bl IHbl bx0 bp br IHbr]; intros ob Hb.
    + simpl in *. repeat split; try tauto.
    + cbn [merge]. destruct Ha as (Ha1 & Ha2 & Ha3 & Ha4). destruct (ap <? bp) eqn:Hlt.
      * apply Z.ltb_lt in Hlt.
        destruct (push (ovr oa ax0) (item al) (item ar)) as [[ax' ol] or] eqn:Epush.
        destruct (IHar or (Nd bl bx0 bp br) ob Ha4 Hb) as (H1 & H2 & H3).
        split; [|split].
        -- simpl. rewrite root_ge_set, HeapS_set. repeat split; auto; try (apply H3; [auto | simpl; lia]).
        -- intros p Hp _. exact Hp.
        -- intros p Hp _. exact Hp.
      * apply Z.ltb_ge in Hlt. destruct Hb as (Hb1 & Hb2 & Hb3 & Hb4).
        destruct (push (ovr ob bx0) (item bl) (item br)) as [[bx' ol] or] eqn:Epush.
        destruct (IHbl ol Hb3) as (H1 & H2 & H3).
        split; [|split].
        -- simpl. rewrite root_gt_set, HeapS_set. repeat split; auto; try (apply H2; [simpl; lia | auto]).
        -- intros p _ Hp. exact Hp.
        -- intros p _ Hp. exact Hp.
Qed.

Lemma split_at_heapS t : forall ot k a b, HeapS t -> split_at update push size t ot k = (a, b) ->
  HeapS a /\ HeapS b /\ (forall p, root_ge p t -> root_ge p a /\ root_ge p b)
  /\ (forall p, root_gt p t -> root_gt p a /\ root_gt p b).
Proof.
  clear modify elem agg V A M.
  induction t as [|l IHl x0 q r IHr]; intros ot k a b Ht HS.
  - simpl in HS. injection HS as <- <-. simpl. auto.
  - cbn [split_at] in HS. destruct Ht as (H1 & H2 & H3 & H4).
    destruct (push (ovr ot x0) (item l) (item r)) as [[x' ol] or] eqn:Epush.
    destruct (osize size (item (set_item l ol)) <? k).
    + destruct (split_at update push size r or (k - osize size (item (set_item l ol)) - 1)) as [a0 b0] eqn:Er.
      injection HS as <- <-. destruct (IHr _ _ _ _ H4 Er) as (Ia & Ib & Ige & Igt).
      destruct (Igt q H2) as [Ipa Ipb].
      split; [|split; [|split]].
      * simpl. rewrite root_ge_set, HeapS_set. auto.
      * exact Ib.
      * intros p Hp. simpl in Hp. split; [exact Hp|]. apply root_gt_ge. eapply root_gt_mono; eauto.
      * intros p Hp. simpl in Hp. split; [exact Hp|]. eapply root_gt_mono; [|exact Ipb]. lia.
    + destruct (split_at update push size l ol k) as [a0 b0] eqn:El.
      injection HS as <- <-. destruct (IHl _ _ _ _ H3 El) as (Ia & Ib & Ige & Igt).
      destruct (Ige q H1) as [Ipa Ipb].
      split; [|split; [|split]].
      * exact Ia.
      * simpl. rewrite root_gt_set, HeapS_set. auto.
      * intros p Hp. simpl in Hp. split; [|exact Hp]. eapply root_ge_mono; eauto.
      * intros p Hp. simpl in Hp. split; [|exact Hp]. eapply root_ge_gt; eauto.
Qed.

Lemma split_by_heapS (q : T -> bool) t : forall ot a b, HeapS t -> split_by update push q t ot = (a, b) ->
  HeapS a /\ HeapS b /\ (forall p, root_ge p t -> root_ge p a /\ root_ge p b)
  /\ (forall p, root_gt p t -> root_gt p a /\ root_gt p b).
Proof.
  clear size modify elem agg V A M.
  induction t as [|l IHl x0 pq r IHr]; intros ot a b Ht HS.
  - simpl in HS. injection HS as <- <-. simpl. auto.
  - cbn [split_by] in HS. destruct Ht as (H1 & H2 & H3 & H4).
    destruct (push (ovr ot x0) (item l) (item r)) as [[x' ol] or] eqn:Epush.
    destruct (q x').
    + destruct (split_by update push q r or) as [a0 b0] eqn:Er.
      injection HS as <- <-. destruct (IHr _ _ _ H4 Er) as (Ia & Ib & Ige & Igt).
      destruct (Igt pq H2) as [Ipa Ipb].
      split; [|split; [|split]].
      * simpl. rewrite root_ge_set, HeapS_set. auto.
      * exact Ib.
      * intros p Hp. simpl in Hp. split; [exact Hp|]. apply root_gt_ge. eapply root_gt_mono; eauto.
      * intros p Hp. simpl in Hp. split; [exact Hp|]. eapply root_gt_mono; [|exact Ipb]. lia.
    + destruct (split_by update push q l ol) as [a0 b0] eqn:El.
      injection HS as <- <-. destruct (IHl _ _ _ H3 El) as (Ia & Ib & Ige & Igt).
      destruct (Ige pq H1) as [Ipa Ipb].
      split; [|split; [|split]].
      * exact Ia.
      * simpl. rewrite root_gt_set, HeapS_set. auto.
      * intros p Hp. simpl in Hp. split; [|exact Hp]. eapply root_ge_mono; eauto.
      * intros p Hp. simpl in Hp. split; [|exact Hp]. eapply root_ge_gt; eauto.
Qed.

Lemma collect_heapS t : forall ot,
  (HeapS t -> HeapS (fst (collect push t ot))) /\ (forall p, root_ge p t -> root_ge p (fst (collect push t ot)))
  /\ (forall p, root_gt p t -> root_gt p (fst (collect push t ot))).
Proof.
  clear update size modify elem agg V A M.
  induction t as [|l IHl x0 q r IHr]; intros ot; [simpl; auto|].
  cbn [collect]. destruct (push (ovr ot x0) (item l) (item r)) as [[x' ol] or].
  destruct (IHl ol) as (L1 & L2 & L3). destruct (IHr or) as (R1 & R2 & R3).
  destruct (collect push l ol) as [l' ls]. destruct (collect push r or) as [r' rs]. simpl in *.
  split; [|split]; [intros (H1 & H2 & H3 & H4); repeat split; auto|auto|auto].
Qed.
Lemma first_heapS t : forall ot,
  (HeapS t -> HeapS (fst (first push t ot))) /\ (forall p, root_ge p t -> root_ge p (fst (first push t ot)))
  /\ (forall p, root_gt p t -> root_gt p (fst (first push t ot))).
Proof.
  clear update size modify elem agg V A M.
  induction t as [|l IHl x0 q r IHr]; intros ot; [simpl; auto|].
  cbn [first]. destruct l as [|ll lx lp lr]; [simpl; repeat split; try tauto; auto|].
  destruct (push (ovr ot x0) (item (Nd ll lx lp lr)) (item r)) as [[x' ol] or].
  destruct (IHl ol) as (L1 & L2 & L3).
  destruct (first push (Nd ll lx lp lr) ol) as [l' res]. simpl fst in *.
  split; [|split]; auto.
  intros (H1 & H2 & H3 & H4). cbn [HeapS]. rewrite root_gt_set, HeapS_set. auto.
Qed.
Lemma last_heapS t : forall ot,
  (HeapS t -> HeapS (fst (last push t ot))) /\ (forall p, root_ge p t -> root_ge p (fst (last push t ot)))
  /\ (forall p, root_gt p t -> root_gt p (fst (last push t ot))).
Proof.
  clear update size modify elem agg V A M.
  induction t as [|l IHl x0 q r IHr]; intros ot; [simpl; auto|].
  cbn [last]. destruct r as [|rl rx rp rr]; [simpl; repeat split; try tauto; auto|].
  destruct (push (ovr ot x0) (item l) (item (Nd rl rx rp rr))) as [[x' ol] or].
  destruct (IHr or) as (L1 & L2 & L3).
  destruct (last push (Nd rl rx rp rr) or) as [r' res]. simpl fst in *.
  split; [|split]; auto.
  intros (H1 & H2 & H3 & H4). cbn [HeapS]. rewrite root_ge_set, HeapS_set. auto.
Qed.

Lemma step_heapS st ps o : Forall HeapS st -> Forall HeapS (fst (fst (step update push size modify elem agg st ps o))).
Proof.
  intros H. destruct o; simpl.
  - apply Forall_snoc; simpl; auto.
  - destruct (next_prio ps). simpl. apply Forall_snoc; simpl; auto.
  - unfold take2. destruct (Nat.eqb i j); [exact H|].
    destruct (nth_error st i) as [a|] eqn:Ei; [|exact H]. destruct (nth_error st j) as [b|] eqn:Ej; [|exact H].
    simpl. apply Forall_snoc; [now do 2 apply Forall_remove_nth|].
    apply merge_heapS; eapply Forall_nth; eauto.
  - unfold take1. destruct (nth_error st i) as [t|] eqn:Ei; [|exact H].
    destruct (split_at update push size t None k) as [a b] eqn:ES. simpl.
    destruct (split_at_heapS t None k a b (Forall_nth _ _ _ _ H Ei) ES) as (Ha & Hb & _).
    apply Forall_snoc2; auto. now apply Forall_remove_nth.
  - unfold take1. destruct (nth_error st i) as [t|] eqn:Ei; [|exact H].
    destruct (split_by update push (fun x => q (elem x)) t None) as [a b] eqn:ES. simpl.
    destruct (split_by_heapS _ t None a b (Forall_nth _ _ _ _ H Ei) ES) as (Ha & Hb & _).
    apply Forall_snoc2; auto. now apply Forall_remove_nth.
  - destruct (nth_error st i) as [t|] eqn:Ei; [|exact H]. destruct (next_prio ps) as [p ps1]. simpl.
    apply Forall_replace_nth; auto. unfold insert_at.
    destruct (split_at update push size t None k) as [l r] eqn:ES.
    destruct (split_at_heapS t None k l r (Forall_nth _ _ _ _ H Ei) ES) as (Hl & Hr & _).
    apply merge_heapS; auto. apply merge_heapS; simpl; auto.
  - destruct (nth_error st i) as [t|] eqn:Ei; [|exact H]. unfold remove_at.
    destruct (split_at update push size t None k) as [t1 t23] eqn:E1.
    destruct (split_at update push size t23 None 1) as [t2 t3] eqn:E2. simpl.
    destruct (split_at_heapS t None k _ _ (Forall_nth _ _ _ _ H Ei) E1) as (H1 & H23 & _).
    destruct (split_at_heapS t23 None 1 _ _ H23 E2) as (H2 & H3 & _).
    apply Forall_replace_nth; auto. apply merge_heapS; auto.
  - destruct (nth_error st i) as [t|] eqn:Ei; [|exact H]. simpl.
    apply Forall_replace_nth; auto. pose proof (Forall_nth _ _ _ _ H Ei) as Ht. destruct t; simpl in *; auto.
  - destruct (nth_error st i) as [t|] eqn:Ei; [|exact H].
    pose proof (first_heapS t None) as (Hf & _). destruct (first push t None) as [t' res]. simpl in *.
    apply Forall_replace_nth; auto. apply Hf. eapply Forall_nth; eauto.
  - destruct (nth_error st i) as [t|] eqn:Ei; [|exact H].
    pose proof (last_heapS t None) as (Hf & _). destruct (last push t None) as [t' res]. simpl in *.
    apply Forall_replace_nth; auto. apply Hf. eapply Forall_nth; eauto.
  - destruct (nth_error st i) as [t|] eqn:Ei; [|exact H].
    pose proof (collect_heapS t None) as (Hf & _). destruct (collect push t None) as [t' res]. simpl in *.
    apply Forall_replace_nth; auto. apply Hf. eapply Forall_nth; eauto.
  - destruct (nth_error st i); exact H.
  - destruct (nth_error st i); exact H.
  - destruct (nth_error st i) as [t|] eqn:Ei; [|exact H]. destruct (nth_error st j) as [tj|] eqn:Ej; [|exact H].
    unfold remove_at.
    destruct (split_at update push size t None k) as [t1 t23] eqn:E1.
    destruct (split_at update push size t23 None 1) as [t2 t3] eqn:E2.
    destruct (split_at_heapS t None k _ _ (Forall_nth _ _ _ _ H Ei) E1) as (H1 & H23 & _).
    destruct (split_at_heapS t23 None 1 _ _ H23 E2) as (H2 & H3 & _).
    assert (HS1 : Forall HeapS (replace_nth i (merge update push t1 None t3 None) st))
      by (apply Forall_replace_nth; auto; apply merge_heapS; auto).
    destruct (item t2) as [x|]; [|exact HS1].
    destruct (nth_error (replace_nth i (merge update push t1 None t3 None) st) j) as [u|] eqn:Eu; [|exact HS1].
    destruct (next_prio ps) as [p ps1]. simpl.
    apply Forall_replace_nth; auto. unfold insert_at.
    destruct (split_at update push size u None k2) as [l r] eqn:ES.
    destruct (split_at_heapS u None k2 l r (Forall_nth _ _ _ _ HS1 Eu) ES) as (Hl & Hr & _).
    apply merge_heapS; auto. apply merge_heapS; simpl; auto.
Qed.

Lemma run_heapS ops : forall st ps, Forall HeapS st -> Forall HeapS (fst (fst (run update push size modify elem agg st ps ops))).
Proof.
  induction ops as [|o ops IH]; intros st ps H; simpl; auto.
  pose proof (step_heapS st ps o H) as H1.
  destruct (step update push size modify elem agg st ps o) as [[st1 ps1] out1]. simpl in H1.
  specialize (IH st1 ps1 H1). destruct (run update push size modify elem agg st1 ps1 ops) as [[st2 ps2] outs]. exact IH.
Qed.

Theorem heapS_preserved ps ops : Forall HeapS (run_final update push size modify elem agg ps ops).
Proof. unfold run_final. apply run_heapS. constructor. Qed.

(** ---------- canonical shape, ties included ---------- *)
Lemma HeapS_all_ge t : forall p, HeapS t -> root_ge p t -> Forall (fun q => p <= fst q) (inorder t).
Proof. clear. intros p Ht. apply Heap_all_ge. now apply HeapS_Heap. Qed.
Lemma HeapS_all_gt t : forall p, HeapS t -> root_gt p t -> Forall (fun q => p < fst q) (inorder t).
Proof.
  clear.
  induction t as [|l IHl x q r IHr]; intros p Ht Hp; simpl; [constructor|].
  destruct Ht as (H1 & H2 & H3 & H4). simpl in Hp.
  apply Forall_app. split; [|constructor].
  - apply IHl; auto. eapply root_ge_gt; eauto.
  - simpl. exact Hp.
  - apply IHr; auto. eapply root_gt_mono; [|exact H2]. lia.
Qed.

Theorem canonical_ties (t1 : tree) : forall t2, HeapS t1 -> HeapS t2 -> inorder t1 = inorder t2 -> t1 = t2.
Proof.
  clear.
  induction t1 as [|l1 IHl x1 p1 r1 IHr]; intros t2 H1 H2 HE.
  - destruct t2; [reflexivity|]. simpl in HE. now apply app_cons_not_nil in HE.
  - destruct t2 as [|l2 x2 p2 r2]; [simpl in HE; symmetry in HE; now apply app_cons_not_nil in HE|].
    simpl in HE. destruct H1 as (A1 & A2 & A3 & A4). destruct H2 as (B1 & B2 & B3 & B4).
    destruct (app_cons_eq _ _ _ _ _ _ HE) as [(El & Ex & Er)|[(m & El & Er)|(m & El & Er)]].
    + injection Ex as -> ->. f_equal; auto.
    + exfalso.
      pose proof (HeapS_all_ge l2 p2 B3 B1) as F2. rewrite El in F2.
      apply Forall_app in F2. destruct F2 as [_ F2]. inversion F2 as [|? ? F2a _]; subst. simpl in F2a.
      pose proof (HeapS_all_gt r1 p1 A4 A2) as F1. rewrite Er in F1.
      apply Forall_app in F1. destruct F1 as [_ F1]. inversion F1 as [|? ? F1a _]; subst. simpl in F1a. lia.
    + exfalso.
      pose proof (HeapS_all_ge l1 p1 A3 A1) as F1. rewrite El in F1.
      apply Forall_app in F1. destruct F1 as [_ F1]. inversion F1 as [|? ? F1a _]; subst. simpl in F1a.
      pose proof (HeapS_all_gt r2 p2 B4 B2) as F2. rewrite Er in F2.
      apply Forall_app in F2. destruct F2 as [_ F2]. inversion F2 as [|? ? F2a _]; subst. simpl in F2a. lia.
Qed.

(** ---------- [cart] builds exactly that tree ---------- *)
Lemma cart_app_spec t : forall p x, HeapS t ->
  HeapS (cart_app t p x) /\ inorder (cart_app t p x) = inorder t ++ [(p, x)]
  /\ (forall q, root_ge q t -> q <= p -> root_ge q (cart_app t p x))
  /\ (forall q, root_gt q t -> q < p -> root_gt q (cart_app t p x)).
Proof.
  clear.
  induction t as [|l IHl y q r IHr]; intros p x Ht.
  - simpl. auto.
  - cbn [cart_app]. destruct (p <=? q) eqn:Hpq.
    + apply Z.leb_le in Hpq. repeat split; simpl; auto. apply Ht. apply Ht. apply Ht. apply Ht.
    + apply Z.leb_gt in Hpq. destruct Ht as (H1 & H2 & H3 & H4).
      destruct (IHr p x H4) as (I1 & I2 & I3 & I4).
      repeat split; simpl; auto.
      rewrite I2. now rewrite <- app_assoc.
Qed.

Lemma cart_fold l : forall t : tree, HeapS t ->
  HeapS (fold_left (fun t px => cart_app t (fst px) (snd px)) l t)
  /\ inorder (fold_left (fun t px => cart_app t (fst px) (snd px)) l t) = inorder t ++ l.
Proof.
  clear.
  induction l as [|[p x] l IH]; intros t Ht; simpl.
  - now rewrite app_nil_r.
  - destruct (cart_app_spec t p x Ht) as (H1 & H2 & _).
    destruct (IH _ H1) as (I1 & I2). split; [exact I1|]. rewrite I2, H2. now rewrite <- app_assoc.
Qed.

Theorem cartesian (t : tree) : HeapS t -> t = cart (inorder t).
Proof.
  clear.
  intros Ht. destruct (cart_fold (inorder t) E I) as (H1 & H2).
  apply canonical_ties; auto.
Qed.
End Strict.
