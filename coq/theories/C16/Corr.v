(** C16 — correspondence cases: a history (as in C03), the priorities consumed by node creation, and the
    final state of every live treap as read through the public fields left/right/priority/item, plus its
    final collect().
    [model_check]: the observed trees are exactly the trees of the model (shape, priorities, full items);
    for native cases the priorities are the draws of the modelled generator.
    [spec_check]: (independent of the tree model) every observed tree is heap-ordered, its in-order
    priorities and collected values are those of the list-of-lists machine that carries (priority, value)
    pairs — priorities are only moved (injected-priority cases) — and, when the priorities of a treap are pairwise distinct, its
    shape is the Cartesian tree of its priority sequence. *)
From Coq Require Import ZArith List Bool.
From RlibV Require Import Common.Batch C03.Model C03.Corr C16.Model.
Import ListNotations.
Open Scope Z_scope.

Fixpoint tree_eqb {T} (e : T -> T -> bool) (a b : @tree T) : bool :=
  match a, b with
  | E, E => true
  | Nd l x p r, Nd l' x' p' r' => tree_eqb e l l' && e x x' && (p =? p') && tree_eqb e r r'
  | _, _ => false
  end.
Definition isz_eqb (a b : isz) : bool :=
  (ix a =? ix b) && (ism a =? ism b) && (isize a =? isize b) && (imd a =? imd b).
Definition iaa_eqb (a b : iaa) : bool :=
  (ax a =? ax b) && (asm a =? asm b) && (asize a =? asize b) && oeqb Z.eqb (aset a) (aset b) && (aadd a =? aadd b).

Inductive case :=
| CaseA (ops : list cop) (prios : list Z) (native : bool) (obs : option (list (@tree isz) * list (list Z)))
| CaseB (ops : list cop) (prios : list Z) (native : bool) (obs : option (list (@tree iaa) * list (list Z))).

Definition native_ok (native : bool) (ps : list Z) : bool :=
  if native then leqb Z.eqb ps (lcg_prios (length ps) lcg_seed) else true.

Definition final0 (ps : list Z) (ops : list cop) : list (@tree isz) := fst (fst (run0 ps ops)).
Definition final1 (ps : list Z) (ops : list cop) : list (@tree iaa) := fst (fst (run1 ps ops)).
Definition coll0 (t : @tree isz) : list Z := map ix (snd (collect isz_push t None)).
Definition coll1 (t : @tree iaa) : list Z := map ax (snd (collect iaa_push t None)).

Definition model_check (c : case) : bool :=
  match c with
  | CaseA ops ps nat (Some (ts, cs)) =>
      native_ok nat ps && leqb (tree_eqb isz_eqb) (final0 ps ops) ts
      && leqb (leqb Z.eqb) (map coll0 (final0 ps ops)) cs
  | CaseB ops ps nat (Some (ts, cs)) =>
      native_ok nat ps && leqb (tree_eqb iaa_eqb) (final1 ps ops) ts
      && leqb (leqb Z.eqb) (map coll1 (final1 ps ops)) cs
  | _ => false
  end.

Fixpoint nodupb (l : list Z) : bool :=
  match l with [] => true | x :: xs => negb (existsb (Z.eqb x) xs) && nodupb xs end.

(** one observed treap against the (priority, value) list the specification machine holds for it.
    In native cases the priorities fed to the specification machine are only the plugin's prediction of the
    generator's draws; a different (still lawful) generator is not a violation of the property, so there the
    in-order priorities are taken from the observation and only their number is compared. *)
Definition tree_ok {T} (native : bool) (t : @tree T) (coll : list Z) (want : list pv) : bool :=
  let ps := if native then map fst (inorder t) else map fst want in
  heapb t
  && leqb Z.eqb (map fst (inorder t)) ps
  && Nat.eqb (length (inorder t)) (length want)
  && leqb Z.eqb coll (map snd want)
  && (if nodupb ps then tree_eqb (fun _ _ => true) (tmap (fun _ => tt) t) (cart (map (fun p => (p, tt)) ps)) else true).

Fixpoint all3 {X Y W} (f : X -> Y -> W -> bool) (a : list X) (b : list Y) (c : list W) : bool :=
  match a, b, c with
  | [], [], [] => true
  | x :: a', y :: b', w :: c' => f x y w && all3 f a' b' c'
  | _, _, _ => false
  end.

Definition spec_check (c : case) : bool :=
  match c with
  | CaseA ops ps nat obs =>
      match prun md0_act [] ps ops with
      | None => true
      | Some want => match obs with Some (ts, cs) => all3 (tree_ok nat) ts cs want | None => false end
      end
  | CaseB ops ps nat obs =>
      match prun amod_act [] ps ops with
      | None => true
      | Some want => match obs with Some (ts, cs) => all3 (tree_ok nat) ts cs want | None => false end
      end
  end.

(** model's final trees, for replay files *)
Definition explain (c : case) :=
  match c with
  | CaseA ops ps _ _ => (final0 ps ops, @nil (@tree iaa), prun md0_act [] ps ops)
  | CaseB ops ps _ _ => (@nil (@tree isz), final1 ps ops, prun amod_act [] ps ops)
  end.
