(** C16 — history level: every treap of the machine is, at every moment, heap-ordered in the exact sense of
    the code, denotes the element sequence of the specification machine, and carries IN ORDER exactly the
    priorities that the (priority, value) specification machine [prun] holds: priorities are created once,
    never changed, and travel with their elements.  Corollary: on every C16 correspondence case, agreement
    with the model implies the specification check. *)
From Coq Require Import ZArith List Bool Lia.
From RlibV Require Import Common.Batch C03.Model C03.Corr C03.Proofs C03.ProofsInst C16.Model C16.Corr C16.Proofs C16.ProofsStrict.
Import ListNotations.
Open Scope Z_scope.

Lemma app_eq_len {X} (a : list X) : forall b c d, a ++ b = c ++ d -> length a = length c -> a = c /\ b = d.
Proof.
  induction a as [|x a IH]; intros b [|y c] d H HL; simpl in *; try discriminate; auto.
  injection H as -> H. injection HL as HL. destruct (IH _ _ _ H HL) as [-> ->]. auto.
Qed.

Lemma leqb_refl {X} (e : X -> X -> bool) : (forall x, e x x = true) -> forall l, leqb e l l = true.
Proof. intros He l. induction l; simpl; auto. now rewrite He, IHl. Qed.
Lemma leqb_eq {X} (e : X -> X -> bool) : (forall x y, e x y = true -> x = y) -> forall l l', leqb e l l' = true -> l = l'.
Proof.
  intros He l. induction l as [|x l IH]; intros [|y l'] H; simpl in H; try discriminate; auto.
  apply andb_true_iff in H. destruct H as [H1 H2]. f_equal; auto.
Qed.
Lemma tree_eqb_refl {X} (e : X -> X -> bool) : (forall x, e x x = true) -> forall t : @tree X, tree_eqb e t t = true.
Proof. intros He t. induction t; simpl; auto. now rewrite IHt1, IHt2, He, Z.eqb_refl. Qed.
Lemma tree_eqb_eq {X} (e : X -> X -> bool) : (forall x y, e x y = true -> x = y) ->
  forall a b : @tree X, tree_eqb e a b = true -> a = b.
Proof.
  intros He a. induction a as [|l IHl x p r IHr]; intros [|l' x' p' r'] H; simpl in H; try discriminate; auto.
  rewrite !andb_true_iff in H. destruct H as [[[H1 H2] H3] H4]. apply Z.eqb_eq in H3.
  f_equal; auto.
Qed.
Lemma isz_eqb_eq a b : isz_eqb a b = true -> a = b.
Proof.
  destruct a, b. unfold isz_eqb. simpl. rewrite !andb_true_iff, !Z.eqb_eq. intros [[[-> ->] ->] ->]. reflexivity.
Qed.
Lemma oeqb_Z_eq (a b : option Z) : oeqb Z.eqb a b = true -> a = b.
Proof. destruct a, b; simpl; try discriminate; auto. intros H. apply Z.eqb_eq in H. now subst. Qed.
Lemma iaa_eqb_eq a b : iaa_eqb a b = true -> a = b.
Proof.
  destruct a, b. unfold iaa_eqb. simpl. rewrite !andb_true_iff, !Z.eqb_eq. intros [[[[-> ->] ->] H] ->].
  apply oeqb_Z_eq in H. now subst.
Qed.

Section TMap.
Context {X Y : Type} (f : X -> Y).
Lemma inorder_tmap (t : @tree X) : inorder (tmap f t) = map (fun px => (fst px, f (snd px))) (inorder t).
Proof. induction t; simpl; auto. now rewrite map_app, IHt1, IHt2. Qed.
Lemma HeapS_tmap (t : @tree X) : HeapS t -> HeapS (tmap f t).
Proof.
  induction t as [|l IHl x p r IHr]; simpl; auto. intros (H1 & H2 & H3 & H4).
  repeat split; auto; [destruct l|destruct r]; simpl in *; auto.
Qed.
End TMap.

Lemma premove_eq {X} k (xs : list X) : premove k xs = firstn (Z.to_nat k) xs ++ skipn (S (Z.to_nat k)) xs.
Proof.
  unfold premove. rewrite znth_eq. destruct (nth_error xs (Z.to_nat k)) eqn:E; [reflexivity|]. apply nth_error_None in E.
  rewrite firstn_all2, skipn_all2 by lia. now rewrite app_nil_r.
Qed.

Lemma F2_impl {X Y} (R1 R2 : X -> Y -> Prop) l l' : (forall a b, R1 a b -> R2 a b) -> Forall2 R1 l l' -> Forall2 R2 l l'.
Proof. intros Hi H. induction H; constructor; auto. Qed.
Lemma all3_map {X Y W} (P : X -> Y -> W -> bool) (g : X -> Y) ts want :
  Forall2 (fun t w => P t (g t) w = true) ts want -> all3 P ts (map g ts) want = true.
Proof. induction 1; simpl; auto. now rewrite H, IHForall2. Qed.

Section Hist.
Context {T M A : Type}.
Variable update : T -> option T -> option T -> T.
Variable push : T -> option T -> option T -> T * option T * option T.
Variable size : T -> Z.
Variable modify : M -> T -> T.
Variable elem : T -> Z.
Variable agg : T -> A.
Variable act : M -> Z -> Z.
Variable aggf : list Z -> A.
Variable Pending : T -> list M -> Prop.
Hypothesis LAW : lawful update push size modify elem agg act aggf Pending.
(** how the concrete operations are turned into items and modifiers *)
Variable mk : Z -> T.
Variable md : amod -> M.
Variable actc : amod -> Z -> Z.
Hypothesis mk_fresh : forall v, Fresh size elem agg aggf Pending (mk v).
Hypothesis mk_elem : forall v, elem (mk v) = v.
Hypothesis md_act : forall m e, act (md m) e = actc m e.

Notation tree := (@tree T).
Notation RepT := (Rep size elem agg act aggf Pending).

Definition Inv (t : tree) (pxs : list pv) : Prop :=
  HeapS t /\ RepT t (map snd pxs) /\ prios t = map fst pxs.

Lemma Rep_prios_length t xs : RepT t xs -> length (prios t) = length xs.
Proof.
  induction 1 as [|l x p r ms ls rs xs Hp Hl IHl Hr IHr Hx Ha Hs]; [reflexivity|].
  rewrite prios_Nd. subst xs. rewrite !app_length. simpl. rewrite !map_length. lia.
Qed.

Lemma inv_E : Inv E [].
Proof. repeat split. constructor. Qed.

Lemma inv_single_gen x v p : Detached size elem agg aggf Pending x -> elem x = v -> Inv (single x p) [(p, v)].
Proof.
  intros Hf <-. repeat split; simpl; auto. now apply Rep_single.
Qed.
(** the caller's modifications [ms] of an item it holds: still detached (any pending tag), element acted upon *)
Lemma acts_cacts ms : forall v, acts act (map md ms) v = cacts actc ms v.
Proof. induction ms as [|m ms IH]; intros v; [reflexivity|]. unfold acts, cacts in *. simpl. now rewrite md_act, IH. Qed.
Lemma mods_detached x v ms : Detached size elem agg aggf Pending x -> elem x = v ->
  Detached size elem agg aggf Pending (mods modify (map md ms) x) /\ elem (mods modify (map md ms) x) = cacts actc ms v.
Proof.
  intros Hd <-. destruct (Detached_mods _ _ _ _ _ _ _ _ _ LAW (map md ms) x Hd) as [Hd' He].
  split; [exact Hd'|]. now rewrite He, acts_cacts.
Qed.
Lemma mk_detached v ms : Detached size elem agg aggf Pending (mods modify (map md ms) (mk v))
  /\ elem (mods modify (map md ms) (mk v)) = cacts actc ms v.
Proof. apply mods_detached; auto. apply Fresh_Detached, mk_fresh. Qed.
Lemma inv_single v ms p : Inv (single (mods modify (map md ms) (mk v)) p) [(p, cacts actc ms v)].
Proof. destruct (mk_detached v ms). apply inv_single_gen; auto. Qed.

Lemma inv_merge a b pa pb : Inv a pa -> Inv b pb -> Inv (merge update push a None b None) (pa ++ pb).
Proof.
  intros (Ha1 & Ha2 & Ha3) (Hb1 & Hb2 & Hb3). split; [|split].
  - now apply merge_heapS.
  - rewrite map_app. now apply (merge_rep _ _ _ _ _ _ _ _ _ LAW).
  - destruct (merge_heap update push a None b None (HeapS_Heap _ Ha1) (HeapS_Heap _ Hb1)) as (_ & _ & H3).
    rewrite H3, Ha3, Hb3. now rewrite map_app.
Qed.

(** a split whose element-level result is a prefix/suffix pair of the specification list *)
Lemma inv_split_gen t pxs a b (pre suf : list pv) :
  Inv t pxs -> HeapS a -> HeapS b -> prios a ++ prios b = prios t ->
  pxs = pre ++ suf -> RepT a (map snd pre) -> RepT b (map snd suf) ->
  Inv a pre /\ Inv b suf.
Proof.
  intros (H1 & H2 & H3) Ha Hb Hp Hx Ra Rb.
  assert (HL : length (prios a) = length (map fst pre)).
  { rewrite (Rep_prios_length _ _ Ra). now rewrite !map_length. }
  rewrite H3, Hx, map_app in Hp. destruct (app_eq_len _ _ _ _ Hp HL) as [Ea Eb].
  repeat split; auto.
Qed.

Lemma inv_split_at t k pxs a b : Inv t pxs -> split_at update push size t None k = (a, b) ->
  Inv a (firstn (Z.to_nat k) pxs) /\ Inv b (skipn (Z.to_nat k) pxs).
Proof.
  intros HI HS. pose proof HI as (H1 & H2 & H3).
  destruct (split_at_heapS update push size t None k a b H1 HS) as (Ha & Hb & _).
  destruct (split_at_heap update push size t None k a b (HeapS_Heap _ H1) HS) as (_ & _ & _ & Hp).
  destruct (split_at_rep _ _ _ _ _ _ _ _ _ LAW t k _ a b H2 HS) as (Ra & Rb & _).
  apply (inv_split_gen t pxs a b); auto.
  - now rewrite firstn_skipn.
  - now rewrite <- firstn_map.
  - now rewrite <- skipn_map.
Qed.

Lemma take_map c (pxs : list pv) : take_while (fun e => e <? c) (map snd pxs) = map snd (ptake c pxs).
Proof. induction pxs as [|x pxs IH]; simpl; auto. destruct (snd x <? c); simpl; congruence. Qed.
Lemma drop_map c (pxs : list pv) : drop_while (fun e => e <? c) (map snd pxs) = map snd (pdrop c pxs).
Proof. induction pxs as [|x pxs IH]; simpl; auto. destruct (snd x <? c); simpl; congruence. Qed.
Lemma take_drop c (pxs : list pv) : ptake c pxs ++ pdrop c pxs = pxs.
Proof. induction pxs as [|x pxs IH]; simpl; auto. destruct (snd x <? c); simpl; congruence. Qed.
Lemma mono_map c (pxs : list pv) :
  monotone_on (fun e => e <? c) (map snd pxs) = forallb (fun x => negb (snd x <? c)) (pdrop c pxs).
Proof.
  unfold monotone_on. rewrite drop_map. generalize (pdrop c pxs) as l. intros l.
  induction l as [|x l IH]; simpl; auto. now rewrite IH.
Qed.

Lemma inv_split_by t c pxs a b : Inv t pxs ->
  forallb (fun x => negb (snd x <? c)) (pdrop c pxs) = true ->
  split_by update push (fun x => elem x <? c) t None = (a, b) ->
  Inv a (ptake c pxs) /\ Inv b (pdrop c pxs).
Proof.
  intros HI HM HS. pose proof HI as (H1 & H2 & H3).
  destruct (split_by_heapS update push _ t None a b H1 HS) as (Ha & Hb & _).
  destruct (split_by_heap update push _ t None a b (HeapS_Heap _ H1) HS) as (_ & _ & _ & Hp).
  rewrite <- mono_map in HM.
  destruct (split_by_rep _ _ _ _ _ _ _ _ _ LAW (fun e => e <? c) t _ a b H2 HM HS) as (Ra & Rb).
  apply (inv_split_gen t pxs a b); auto.
  - now rewrite take_drop.
  - now rewrite <- take_map.
  - now rewrite <- drop_map.
Qed.

(** insert_at of ANY detached item (a newly made one, or the item object that remove_at returned, possibly
    modified by the caller: any pending tag) *)
Lemma inv_insert_gen t k x v p pxs : Inv t pxs -> Detached size elem agg aggf Pending x -> elem x = v ->
  Inv (insert_at update push size t k x p) (firstn (Z.to_nat k) pxs ++ (p, v) :: skipn (Z.to_nat k) pxs).
Proof.
  intros HI Hf Hv. unfold insert_at. destruct (split_at update push size t None k) as [l r] eqn:ES.
  destruct (inv_split_at t k pxs l r HI ES) as [Hl Hr].
  change ((p, v) :: skipn (Z.to_nat k) pxs) with ([(p, v)] ++ skipn (Z.to_nat k) pxs). rewrite app_assoc.
  apply inv_merge; auto. apply inv_merge; auto. now apply inv_single_gen.
Qed.
Lemma inv_insert t k v ms p pxs : Inv t pxs ->
  Inv (insert_at update push size t k (mods modify (map md ms) (mk v)) p)
      (firstn (Z.to_nat k) pxs ++ (p, cacts actc ms v) :: skipn (Z.to_nat k) pxs).
Proof. intros HI. destruct (mk_detached v ms). apply inv_insert_gen; auto. Qed.

Lemma inv_remove t k pxs : Inv t pxs ->
  Inv (fst (remove_at update push size t k)) (firstn (Z.to_nat k) pxs ++ skipn (S (Z.to_nat k)) pxs).
Proof.
  intros HI. unfold remove_at. destruct (split_at update push size t None k) as [t1 t23] eqn:E1.
  destruct (split_at update push size t23 None 1) as [t2 t3] eqn:E2. cbn [fst].
  destruct (inv_split_at t k pxs _ _ HI E1) as [H1 H23].
  destruct (inv_split_at t23 1 _ _ _ H23 E2) as [H2 H3].
  change (Z.to_nat 1) with 1%nat in H3. rewrite <- skipn_1_skipn.
  apply inv_merge; [exact H1 | exact H3].
Qed.

Lemma inv_modify m t pxs : Inv t pxs -> Inv (modify_root modify (md m) t) (map (pact actc m) pxs).
Proof.
  intros (H1 & H2 & H3). split; [|split].
  - destruct t; simpl in *; auto.
  - replace (map snd (map (pact actc m) pxs)) with (map (act (md m)) (map snd pxs))
      by (rewrite !map_map; apply map_ext; intros; simpl; now rewrite md_act).
    now apply (modify_root_rep _ _ _ _ _ _ _ _ _ LAW).
  - destruct (modify_root_heap modify (md m) t) as [_ ->]. rewrite H3. rewrite map_map. reflexivity.
Qed.

Lemma inv_first t pxs : Inv t pxs -> Inv (fst (first push t None)) pxs.
Proof.
  intros (H1 & H2 & H3). destruct (first_heapS push t None) as (F1 & _). destruct (first_heap push t None) as (_ & _ & F3).
  destruct (first push t None) as [t' res] eqn:EF. simpl in *.
  destruct (first_rep_gen _ _ _ _ _ _ _ _ _ LAW t None (map snd pxs) t' res) as [R _]; [now rewrite set_item_None|exact EF|].
  repeat split; auto. congruence.
Qed.
Lemma inv_last t pxs : Inv t pxs -> Inv (fst (last push t None)) pxs.
Proof.
  intros (H1 & H2 & H3). destruct (last_heapS push t None) as (F1 & _). destruct (last_heap push t None) as (_ & _ & F3).
  destruct (last push t None) as [t' res] eqn:EF. simpl in *.
  destruct (last_rep_gen _ _ _ _ _ _ _ _ _ LAW t None (map snd pxs) t' res) as [R _]; [now rewrite set_item_None|exact EF|].
  repeat split; auto. congruence.
Qed.
Lemma inv_collect t pxs : Inv t pxs ->
  Inv (fst (collect push t None)) pxs /\ map elem (snd (collect push t None)) = map snd pxs.
Proof.
  intros (H1 & H2 & H3). destruct (collect_heapS push t None) as (F1 & _). destruct (collect_heap push t None) as (_ & _ & F3).
  destruct (collect push t None) as [t' ys] eqn:EF. simpl in *.
  destruct (collect_rep_gen _ _ _ _ _ _ _ _ _ LAW t None (map snd pxs) t' ys) as [R Hy]; [now rewrite set_item_None|exact EF|].
  repeat split; auto. congruence.
Qed.

(** ---------- the machine against [pstep] ---------- *)
Notation cv := (conv modify mk md).
Lemma step_inv st pst ps o pst' ps' :
  Forall2 Inv st pst -> pstep actc pst ps o = Some (pst', ps') ->
  Forall2 Inv (fst (fst (step update push size modify elem agg st ps (cv o)))) pst'
  /\ snd (fst (step update push size modify elem agg st ps (cv o))) = ps'.
Proof.
  intros H HS. destruct o; [simpl in HS |- * .. | cbn [pstep conv step] in HS |- *].
  - injection HS as <- <-. split; auto. apply Forall2_app; auto. constructor; auto. apply inv_E.
  - destruct (next_prio ps) as [p ps1]. injection HS as <- <-. split; auto.
    apply Forall2_app; auto. constructor; auto. apply inv_single.
  - pose proof (F2_take2 Inv st pst i j H) as H2.
    destruct (take2 i j st) as [[[a b] rest]|], (take2 i j pst) as [[[xa xb] xrest]|]; try contradiction.
    + destruct H2 as (Ha & Hb & Hr). injection HS as <- <-. split; auto.
      apply Forall2_app; auto. constructor; auto. now apply inv_merge.
    + injection HS as <- <-. auto.
  - pose proof (F2_take1 Inv st pst i H) as H1.
    destruct (take1 i st) as [[t rest]|], (take1 i pst) as [[xs xrest]|]; try contradiction.
    + destruct H1 as (Ht & Hr). destruct (split_at update push size t None k) as [a b] eqn:ES.
      injection HS as <- <-. split; auto. destruct (inv_split_at t k xs a b Ht ES) as [Ha Hb].
      rewrite zfirstn_eq, zskipn_eq. apply Forall2_app; auto.
    + injection HS as <- <-. auto.
  - pose proof (F2_take1 Inv st pst i H) as H1.
    destruct (take1 i st) as [[t rest]|], (take1 i pst) as [[xs xrest]|]; try contradiction.
    + destruct H1 as (Ht & Hr).
      destruct (forallb (fun x => negb (snd x <? c)) (pdrop c xs)) eqn:HM; [|discriminate].
      destruct (split_by update push (fun x => elem x <? c) t None) as [a b] eqn:ES.
      injection HS as <- <-. split; auto. destruct (inv_split_by t c xs a b Ht HM ES) as [Ha Hb].
      apply Forall2_app; auto.
    + injection HS as <- <-. auto.
  - pose proof (F2_nth Inv st pst i H) as Hn.
    destruct (nth_error st i) as [t|], (nth_error pst i) as [xs|]; simpl in Hn; try contradiction.
    + destruct (next_prio ps) as [p ps1]. injection HS as <- <-. split; auto.
      rewrite zfirstn_eq, zskipn_eq. apply F2_replace; auto. now apply inv_insert.
    + injection HS as <- <-. auto.
  - pose proof (F2_nth Inv st pst i H) as Hn.
    destruct (nth_error st i) as [t|], (nth_error pst i) as [xs|]; simpl in Hn; try contradiction.
    + rewrite premove_eq in HS. injection HS as <- <-. pose proof (inv_remove t k xs Hn) as HR.
      destruct (remove_at update push size t k) as [t' res]. simpl in *. split; auto. apply F2_replace; auto.
    + injection HS as <- <-. auto.
  - pose proof (F2_nth Inv st pst i H) as Hn.
    destruct (nth_error st i) as [t|], (nth_error pst i) as [xs|]; simpl in Hn; try contradiction.
    + injection HS as <- <-. split; auto. apply F2_replace; auto. now apply inv_modify.
    + injection HS as <- <-. auto.
  - injection HS as <- <-. pose proof (F2_nth Inv st pst i H) as Hn.
    destruct (nth_error st i) as [t|] eqn:Et, (nth_error pst i) as [xs|] eqn:Ex; simpl in Hn; try contradiction; auto.
    pose proof (inv_first t xs Hn) as HR. destruct (first push t None) as [t' res]. simpl in *. split; auto.
    rewrite <- (replace_nth_same pst i xs Ex). apply F2_replace; auto.
  - injection HS as <- <-. pose proof (F2_nth Inv st pst i H) as Hn.
    destruct (nth_error st i) as [t|] eqn:Et, (nth_error pst i) as [xs|] eqn:Ex; simpl in Hn; try contradiction; auto.
    pose proof (inv_last t xs Hn) as HR. destruct (last push t None) as [t' res]. simpl in *. split; auto.
    rewrite <- (replace_nth_same pst i xs Ex). apply F2_replace; auto.
  - injection HS as <- <-. pose proof (F2_nth Inv st pst i H) as Hn.
    destruct (nth_error st i) as [t|] eqn:Et, (nth_error pst i) as [xs|] eqn:Ex; simpl in Hn; try contradiction; auto.
    pose proof (inv_collect t xs Hn) as [HR _]. destruct (collect push t None) as [t' res]. simpl in *. split; auto.
    rewrite <- (replace_nth_same pst i xs Ex). apply F2_replace; auto.
  - injection HS as <- <-. destruct (nth_error st i); auto.
  - injection HS as <- <-. destruct (nth_error st i); auto.
  - (* Move *)
    pose proof (F2_nth Inv st pst i H) as Hi. pose proof (F2_nth Inv st pst j H) as Hj.
    destruct (nth_error st i) as [t|], (nth_error pst i) as [xs|] eqn:Ex; simpl in Hi; try contradiction;
      [|injection HS as <- <-; auto].
    destruct (nth_error st j) as [tj|], (nth_error pst j) as [xj|]; simpl in Hj; try contradiction;
      [|injection HS as <- <-; auto].
    pose proof (inv_remove t k xs Hi) as HR.
    destruct Hi as (_ & HRep & _).
    destruct (remove_at update push size t k) as [t' res] eqn:ER. cbn [fst] in HR.
    destruct (remove_at_rep _ _ _ _ _ _ _ _ _ LAW t k _ t' res HRep ER) as (_ & Hres & Hfr). rewrite znth_eq in HS.
    destruct (nth_error xs (Z.to_nat k)) as [pvx|] eqn:En.
    + rewrite (map_nth_error snd _ _ En) in Hres.
      destruct res as [x|]; simpl in Hres; [|discriminate]. injection Hres as Hv.
      assert (H1 : Forall2 Inv (replace_nth i t' st)
                     (replace_nth i (firstn (Z.to_nat k) xs ++ skipn (S (Z.to_nat k)) xs) pst)) by (apply F2_replace; auto).
      pose proof (F2_nth Inv _ _ j H1) as Hj1.
      destruct (nth_error (replace_nth i t' st) j) as [u|];
        destruct (nth_error (replace_nth i (firstn (Z.to_nat k) xs ++ skipn (S (Z.to_nat k)) xs) pst) j) as [ys|];
        simpl in Hj1; try contradiction.
      * destruct (next_prio ps) as [p ps1]. injection HS as <- <-. split; auto.
        rewrite zfirstn_eq, zskipn_eq. apply F2_replace; auto.
        destruct (mods_detached x (snd pvx) ms (Fresh_Detached _ _ _ _ _ _ (Hfr x eq_refl)) Hv) as [Hd He].
        apply inv_insert_gen; auto.
      * injection HS as <- <-. auto.
    + apply nth_error_None in En.
      assert (En' : nth_error (map snd xs) (Z.to_nat k) = None) by (apply nth_error_None; now rewrite map_length).
      rewrite En' in Hres.
      destruct res as [x|]; simpl in Hres; [discriminate|]. injection HS as <- <-. split; auto.
      rewrite <- (replace_nth_same pst i xs Ex). apply F2_replace; auto. rewrite firstn_all2, skipn_all2 in HR by lia. now rewrite app_nil_r in HR.
Qed.

Lemma run_inv ops : forall st pst ps want,
  Forall2 Inv st pst -> prun actc pst ps ops = Some want ->
  Forall2 Inv (fst (fst (run update push size modify elem agg st ps (map cv ops)))) want.
Proof.
  induction ops as [|o ops IH]; intros st pst ps want H HP; simpl in *.
  - injection HP as <-. exact H.
  - destruct (pstep actc pst ps o) as [[pst1 ps1]|] eqn:E1; [|discriminate].
    destruct (step_inv st pst ps o pst1 ps1 H E1) as [H1 H2].
    destruct (step update push size modify elem agg st ps (cv o)) as [[st1 ps1'] out1]. simpl in *. subst ps1'.
    specialize (IH st1 pst1 ps1 want H1 HP).
    destruct (run update push size modify elem agg st1 ps1 (map cv ops)) as [[st2 ps2] outs]. exact IH.
Qed.

Theorem history_inv ps ops want : prun actc [] ps ops = Some want ->
  Forall2 Inv (run_final update push size modify elem agg ps (map cv ops)) want.
Proof. intros HP. unfold run_final. apply (run_inv ops [] [] ps want); auto. Qed.

Lemma tree_ok_inv nat t want : Inv t want -> tree_ok nat t (map elem (snd (collect push t None))) want = true.
Proof.
  intros HI. pose proof HI as (H1 & H2 & H3). unfold tree_ok.
  assert (Hps : (if nat then map fst (inorder t) else map fst want) = prios t) by (destruct nat; [reflexivity|now rewrite H3]).
  rewrite Hps. fold (prios t).
  rewrite (proj2 (heapb_Heap t) (HeapS_Heap _ H1)).
  rewrite (leqb_refl Z.eqb Z.eqb_refl).
  assert (HL : length (inorder t) = length want).
  { unfold prios in H3. apply (f_equal (@length Z)) in H3. now rewrite !map_length in H3. }
  rewrite HL, Nat.eqb_refl.
  destruct (inv_collect t want HI) as [_ ->]. rewrite (leqb_refl Z.eqb Z.eqb_refl). simpl.
  destruct (nodupb (prios t)); [|reflexivity].
  rewrite (cartesian (tmap (fun _ => tt) t) (HeapS_tmap _ t H1)) at 1.
  rewrite inorder_tmap. unfold prios. rewrite map_map. simpl.
  apply tree_eqb_refl. reflexivity.
Qed.

Lemma all_tree_ok nat ps ops want : prun actc [] ps ops = Some want ->
  let ts := run_final update push size modify elem agg ps (map cv ops) in
  all3 (tree_ok nat) ts (map (fun t => map elem (snd (collect push t None))) ts) want = true.
Proof.
  intros HP ts. apply all3_map.
  eapply F2_impl; [|exact (history_inv ps ops want HP)]. intros t w Hi. now apply tree_ok_inv.
Qed.
End Hist.

Theorem model_check_spec_check16 (c : case) : model_check c = true -> spec_check c = true.
Proof.
  destruct c as [ops ps nat [[ts cs]|]|ops ps nat [[ts cs]|]]; simpl; try discriminate.
  - rewrite !andb_true_iff. intros [[_ Ht] Hc].
    apply (leqb_eq _ (tree_eqb_eq _ isz_eqb_eq)) in Ht.
    apply (leqb_eq _ (leqb_eq _ (fun x y H => proj1 (Z.eqb_eq x y) H))) in Hc. subst ts cs.
    destruct (prun md0_act [] ps ops) as [want|] eqn:E; [|reflexivity].
    apply (all_tree_ok isz_update isz_push isize isz_modify ix ism Z.add zsum isz_pending isz_lawful isz_mk md0 md0_act
             isz_fresh (fun v => eq_refl) (fun m e => Z.add_comm _ _) nat ps ops want E).
  - rewrite !andb_true_iff. intros [[_ Ht] Hc].
    apply (leqb_eq _ (tree_eqb_eq _ iaa_eqb_eq)) in Ht.
    apply (leqb_eq _ (leqb_eq _ (fun x y H => proj1 (Z.eqb_eq x y) H))) in Hc. subst ts cs.
    destruct (prun amod_act [] ps ops) as [want|] eqn:E; [|reflexivity].
    apply (all_tree_ok iaa_update iaa_push asize iaa_modify ax asm amod_act zsum iaa_pending iaa_lawful iaa_mk (fun m => m) amod_act
             iaa_fresh (fun v => eq_refl) (fun m e => eq_refl) nat ps ops want E).
Qed.
