(** C11 — crt. *)
From Coq Require Import ZArith List Lia Bool.
From RlibV Require Import Common.Iter C11.Model C11.Proofs C11.ProofsEgcd.
Import ListNotations.
Open Scope Z_scope.

Theorem crt_unique m1 m2 x y : 1 <= m1 -> 1 <= m2 ->
  0 <= x < Z.lcm m1 m2 -> 0 <= y < Z.lcm m1 m2 ->
  x mod m1 = y mod m1 -> x mod m2 = y mod m2 -> x = y.
Proof.
  intros Hm1 Hm2 Hx Hy H1 H2.
  assert (Hd1 : (m1 | x - y)).
  { apply Z.mod_divide; [lia|]. rewrite Zminus_mod, H1, Z.sub_diag. apply Z.mod_0_l. lia. }
  assert (Hd2 : (m2 | x - y)).
  { apply Z.mod_divide; [lia|]. rewrite Zminus_mod, H2, Z.sub_diag. apply Z.mod_0_l. lia. }
  destruct (Z.lcm_least m1 m2 (x - y) Hd1 Hd2) as [k Hk].
  assert (Hk0 : k = 0) by nia.
  subst k. lia.
Qed.

(** the normalisation ((x % m) + m) % m with truncating remainders is the mathematical mod *)
Lemma rem_rem_add x m : 0 < m -> Z.rem (Z.rem x m + m) m = x mod m.
Proof.
  intros Hm.
  pose proof (Z.rem_bound_abs x m ltac:(lia)) as Hb.
  rewrite Z.rem_mod_nonneg by lia.
  replace (Z.rem x m + m) with (Z.rem x m + 1 * m) by ring.
  rewrite Z_mod_plus_full.
  pose proof (Z.quot_rem' x m) as Hqr.
  rewrite Hqr at 2. rewrite (Z.mul_comm m), Z.add_comm, Z_mod_plus_full. reflexivity.
Qed.

Lemma lcm_pos_formula m1 m2 : 1 <= m1 -> 1 <= m2 ->
  Z.lcm m1 m2 = m1 * (m2 / Z.gcd m1 m2) /\ 1 <= m2 / Z.gcd m1 m2.
Proof.
  intros H1 H2. unfold Z.lcm.
  destruct (Z.gcd_divide_r m1 m2) as [q Hq].
  pose proof (Z.gcd_nonneg m1 m2) as Hnn.
  assert (Hg : 0 < Z.gcd m1 m2).
  { destruct (Z.eq_dec (Z.gcd m1 m2) 0) as [Hz|Hz]; [rewrite Hz in Hq; lia|lia]. }
  assert (Hdiv : m2 / Z.gcd m1 m2 = q).
  { rewrite Hq at 1. apply Z.div_mul. lia. }
  rewrite Hdiv. assert (1 <= q) by nia. split; [|lia]. apply Z.abs_eq. nia.
Qed.

Theorem crt_correct a1 m1 a2 m2 :
  1 <= m1 < 2 ^ 130 -> 1 <= m2 < 2 ^ 130 -> 0 <= a1 < m1 -> 0 <= a2 < m2 ->
  ((Z.gcd m1 m2 | a2 - a1) ->
     exists x, crt a1 m1 a2 m2 = Ret (Some x) /\ 0 <= x < Z.lcm m1 m2 /\ x mod m1 = a1 /\ x mod m2 = a2)
  /\ (~ (Z.gcd m1 m2 | a2 - a1) -> crt a1 m1 a2 m2 = Ret None).
Proof.
  intros Hm1 Hm2 Ha1 Ha2.
  assert (Hne : (m1, - m2) <> (0, 0)) by (intros [= H1 _]; lia).
  assert (Habs : Z.abs m1 < 2 ^ 130) by lia.
  unfold crt. rewrite gcd_correct by lia.
  split.
  - intros Hd.
    destruct (egcd_some m1 (- m2) (a2 - a1) Hne Habs) as (x & y & He & Hbez).
    { rewrite Z.gcd_opp_r. exact Hd. }
    rewrite He.
    destruct (lcm_pos_formula m1 m2 ltac:(lia) ltac:(lia)) as [Hlcm Hq1].
    destruct (Z.gcd_divide_l m1 m2) as [p Hp]. destruct (Z.gcd_divide_r m1 m2) as [q Hq].
    pose proof (Z.gcd_nonneg m1 m2) as Hnn.
    assert (Hg : 0 < Z.gcd m1 m2).
    { destruct (Z.eq_dec (Z.gcd m1 m2) 0) as [Hz|Hz]; [rewrite Hz in Hq; lia|lia]. }
    destruct (Z.eqb_spec (Z.gcd m1 m2) 0) as [Hz|_]; [lia|].
    rewrite Z.quot_div_nonneg by lia.
    assert (Hdiv : m2 / Z.gcd m1 m2 = q).
    { rewrite Hq at 1. apply Z.div_mul. lia. }
    rewrite Hdiv in *.
    destruct (Z.eqb_spec q 0) as [Hz|_]; [lia|].
    rewrite rem_rem_add by lia.
    exists (m1 * (x mod q) + a1). split; [reflexivity|].
    pose proof (Z.mod_pos_bound x q ltac:(lia)) as Hxb.
    split; [rewrite Hlcm; nia|]. split.
    + rewrite Z.add_comm, Z.mul_comm, Z_mod_plus_full. apply Z.mod_small. lia.
    + pose proof (Z.div_mod x q ltac:(lia)) as Hdm.
      assert (Heq : m1 * (x mod q) + a1 = a2 + (y - p * (x / q)) * m2).
      { assert (Hx' : x mod q = x - q * (x / q)) by lia.
        rewrite Hx'. 
        assert (Hpq : m1 * q = p * m2) by (rewrite Hp at 1; rewrite Hq at 2; ring).
        assert (Hpq' : m1 * (q * (x / q)) = p * m2 * (x / q)) by (rewrite <- Hpq; ring).
        nia. }
      rewrite Heq, Z_mod_plus_full. apply Z.mod_small. lia.
  - intros Hnd.
    destruct (egcd_complete m1 (- m2) (a2 - a1) Hne Habs) as [_ Hiff].
    rewrite Z.gcd_opp_r in Hiff. apply Hiff in Hnd. rewrite Hnd. reflexivity.
Qed.
