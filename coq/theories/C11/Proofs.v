(** C11 — proofs about the model. *)
From Coq Require Import ZArith List Lia Bool.
From RlibV Require Import Common.Iter C11.Model.
Import ListNotations.
Open Scope Z_scope.

Lemma rem_nonneg a b : 0 <= a -> 0 < b -> Z.rem a b = a mod b.
Proof. intros. apply Z.rem_mod_nonneg; lia. Qed.

Lemma gcd_loop_spec a b : 0 <= a -> 0 <= b -> b < 2 ^ 130 ->
  iter_pos gcd_step big_fuel (a, b) = inr (Z.gcd a b).
Proof.
  intros Ha Hb Hlt.
  destruct (iter_pos_spec gcd_step
              (fun s => 0 <= fst s /\ 0 <= snd s /\ Z.gcd (fst s) (snd s) = Z.gcd a b)
              (fun r => r = Z.gcd a b)
              (fun s => snd s)) with (p := big_fuel) (s := (a, b)) as (r & Hr & ->).
  - intros [x y] (Hx & Hy & Hg); cbn [fst snd] in *. unfold gcd_step.
    destruct (Z.eqb_spec y 0) as [->|Hy0].
    + rewrite Z.gcd_0_r, Z.abs_eq in Hg by lia. exact Hg.
    + assert (0 < y) by lia. rewrite rem_nonneg by lia. cbn [fst snd].
      pose proof (Z.mod_pos_bound x y ltac:(lia)).
      repeat split; try lia.
      rewrite Z.gcd_comm, Z.gcd_mod by lia. rewrite Z.gcd_comm. exact Hg.
  - cbn [fst snd]. auto.
  - cbn [snd]. rewrite big_fuel_val. lia.
  - exact Hr.
Qed.

Theorem gcd_correct a b : Z.abs b < 2 ^ 130 -> gcd a b = Some (Z.gcd a b).
Proof.
  intros Hb. unfold gcd. rewrite gcd_loop_spec by lia.
  now rewrite Z.gcd_abs_l, Z.gcd_abs_r.
Qed.
