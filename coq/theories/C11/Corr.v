(** C11 — correspondence cases: what the implementation returned on an input,
    compared with the model ([model_check]) and with the specification itself
    ([spec_check], stated with the standard library's [Z.gcd] / [Z.lcm] /
    divisibility, independent of the model). *)
From Coq Require Import ZArith List Bool.
From RlibV Require Import Common.Batch C11.Model.
Import ListNotations.
Open Scope Z_scope.

(** observation = what the Rust call did: [Panic], or the returned value *)
Inductive case :=
| CGcd (a b : Z) (r : outcome Z)
| CLcm (a b : Z) (r : outcome Z)
| CEgcd (a b c : Z) (r : outcome (option (Z * Z)))
| CCrt (a1 m1 a2 m2 : Z) (r : outcome (option Z)).

Definition out_eqb {A} (e : A -> A -> bool) (x y : outcome A) : bool :=
  match x, y with Panic, Panic => true | Ret a, Ret b => e a b | _, _ => false end.
Definition of_opt {A} (o : option A) : outcome A := match o with Some x => Ret x | None => Panic end.

Definition model_check (c : case) : bool :=
  match c with
  | CGcd a b r => out_eqb Z.eqb (of_opt (gcd a b)) r
  | CLcm a b r => out_eqb Z.eqb (of_opt (lcm a b)) r
  | CEgcd a b c r => out_eqb (oeqb (peqb Z.eqb Z.eqb)) (egcd a b c) r
  | CCrt a1 m1 a2 m2 r => out_eqb (oeqb Z.eqb) (crt a1 m1 a2 m2) r
  end.

Definition divides (d n : Z) : bool := if d =? 0 then n =? 0 else Z.modulo n d =? 0.

(** The property, decided directly on the observation. *)
Definition spec_check (c : case) : bool :=
  match c with
  | CGcd a b r => out_eqb Z.eqb (Ret (Z.gcd a b)) r
  | CLcm a b r =>
      if (a =? 0) && (b =? 0) then true (* outside the quantifier: not both zero *)
      else out_eqb Z.eqb (Ret (Z.lcm a b)) r
  | CEgcd a b c r =>
      if (a =? 0) && (b =? 0) then true (* outside the quantifier *)
      else match r with
           | Panic => false
           | Ret None => negb (divides (Z.gcd a b) c)
           | Ret (Some (x, y)) => divides (Z.gcd a b) c && (a * x + b * y =? c)
           end
  | CCrt a1 m1 a2 m2 r =>
      if negb ((1 <=? m1) && (1 <=? m2) && (0 <=? a1) && (a1 <? m1) && (0 <=? a2) && (a2 <? m2)) then true
      else let compatible := divides (Z.gcd m1 m2) (a2 - a1) in
           match r with
           | Panic => false
           | Ret None => negb compatible
           | Ret (Some x) => compatible && (0 <=? x) && (x <? Z.lcm m1 m2)
                             && (Z.modulo x m1 =? a1) && (Z.modulo x m2 =? a2)
           end
  end.

(** what the model computes on the input of a case (for replay files) *)
Definition explain (c : case) : outcome Z * outcome (option (Z * Z)) * outcome (option Z) :=
  match c with
  | CGcd a b _ => (of_opt (gcd a b), Panic, Panic)
  | CLcm a b _ => (of_opt (lcm a b), Panic, Panic)
  | CEgcd a b c _ => (Panic, egcd a b c, Panic)
  | CCrt a1 m1 a2 m2 _ => (Panic, Panic, crt a1 m1 a2 m2)
  end.
