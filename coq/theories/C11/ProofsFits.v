(** C11 — the instrumented variants compute the same results, and for operands of
    magnitude at most M every intermediate value has magnitude at most M*M + M. *)
From Coq Require Import ZArith List Lia Bool.
From RlibV Require Import Common.Iter C11.Model C11.Corr C11.Proofs C11.ProofsEgcd.
From RlibV Require Import C11.Trace.
Import ListNotations.
Open Scope Z_scope.

(** * Lock-step simulation of two [iter_pos] runs *)
Section Sim.
Context {S1 R1 S2 R2 : Type}.
Variable st1 : S1 -> S1 + R1.
Variable st2 : S2 -> S2 + R2.
Variable RS : S1 -> S2 -> Prop.
Variable RR : R1 -> R2 -> Prop.

Definition sim_res (x : S1 + R1) (y : S2 + R2) : Prop :=
  match x, y with
  | inl s, inl t => RS s t
  | inr r, inr r' => RR r r'
  | _, _ => False
  end.

Hypothesis Hstep : forall s t, RS s t -> sim_res (st1 s) (st2 t).

Lemma iter_nat_sim n : forall s t, RS s t -> sim_res (iter_nat st1 n s) (iter_nat st2 n t).
Proof.
  induction n as [|n IH]; intros s t Hst; cbn [iter_nat]; [exact Hst|].
  pose proof (Hstep s t Hst) as Hs. unfold sim_res in Hs.
  destruct (st1 s) as [s'|r], (st2 t) as [t'|r']; try contradiction.
  - apply IH. exact Hs.
  - exact Hs.
Qed.

Lemma iter_pos_sim p s t : RS s t -> sim_res (iter_pos st1 p s) (iter_pos st2 p t).
Proof. intros Hst. rewrite !iter_pos_nat. apply iter_nat_sim. exact Hst. Qed.
End Sim.

(** * Same results *)
Lemma gcd_step_sim p x y tr :
  sim_res (fun s t => fst s = t) (fun r g => fst r = g)
    (iter_pos gcd_step_t p (x, y, tr)) (iter_pos gcd_step p (x, y)).
Proof.
  apply iter_pos_sim; [|reflexivity].
  intros [[x' y'] tr'] t <-. cbn [fst]. unfold sim_res, gcd_step_t, gcd_step.
  destruct (y' =? 0); reflexivity.
Qed.

Lemma gcd_t_same a b : fst (gcd_t a b) = gcd a b.
Proof.
  unfold gcd_t, gcd. generalize big_fuel. intros p.
  pose proof (gcd_step_sim p (Z.abs a) (Z.abs b) [Z.abs b; Z.abs a]) as Hsim.
  unfold sim_res in Hsim.
  destruct (iter_pos gcd_step_t p (Z.abs a, Z.abs b, [Z.abs b; Z.abs a])) as [[[x y] tr]|[g tr]];
  destruct (iter_pos gcd_step p (Z.abs a, Z.abs b)) as [t|g'];
    try contradiction; cbn [fst snd] in *; [reflexivity|subst; reflexivity].
Qed.

Lemma lcm_t_same a b : fst (lcm_t a b) = lcm a b.
Proof.
  unfold lcm_t, lcm. rewrite <- gcd_t_same.
  destruct (gcd_t a b) as [[g|] tr]; cbn [fst]; [|reflexivity].
  destruct (g =? 0); reflexivity.
Qed.

Lemma egcd_up_t_cons q qs r : egcd_up_t (q :: qs) r = egcd_up_t qs (up_step_t r q).
Proof. reflexivity. Qed.

Lemma egcd_up_t_same qs : forall y0 x0 tr,
  fst (egcd_up_t qs (y0, x0, tr)) = egcd_up qs (y0, x0).
Proof.
  induction qs as [|q qs IH]; intros y0 x0 tr; [reflexivity|].
  rewrite egcd_up_t_cons, egcd_up_cons. cbn [up_step_t up_step]. apply IH.
Qed.

Lemma egcd_down_sim p a b tr0 :
  sim_res (fun s t => fst s = t) (fun r r' => fst r = r')
    (iter_pos egcd_down_t p (a, b, [], tr0)) (iter_pos egcd_down p (a, b, [])).
Proof.
  apply iter_pos_sim; [|reflexivity].
  intros [[[ai bi] qs] tr] t <-. cbn [fst]. unfold sim_res, egcd_down_t, egcd_down.
  destruct (ai =? 0); reflexivity.
Qed.

Lemma egcd_t_same a b c : fst (egcd_t a b c) = egcd a b c.
Proof.
  unfold egcd_t, egcd. generalize big_fuel. intros p.
  pose proof (egcd_down_sim p a b [c; b; a]) as Hsim. unfold sim_res in Hsim.
  destruct (iter_pos egcd_down_t p (a, b, [], [c; b; a])) as [[[[ai bi] qs] tr]|[[b0 qs] tr]];
  destruct (iter_pos egcd_down p (a, b, [])) as [t|[b0' qs']]; try contradiction; [reflexivity|].
  cbn [fst] in Hsim. injection Hsim as <- <-.
  destruct (b0 =? 0); [reflexivity|].
  destruct (negb (Z.rem c b0 =? 0)); [reflexivity|].
  pose proof (egcd_up_t_same qs 0 (Z.quot c b0) (Z.quot c b0 :: Z.rem c b0 :: tr)) as Hup.
  destruct (egcd_up_t qs _) as [[x y] tr']. cbn [fst] in *. rewrite <- Hup. reflexivity.
Qed.

Lemma crt_t_same a1 m1 a2 m2 : fst (crt_t a1 m1 a2 m2) = crt a1 m1 a2 m2.
Proof.
  unfold crt_t, crt. rewrite <- gcd_t_same, <- egcd_t_same.
  destruct (gcd_t m1 m2) as [[g|] tr1]; cbn [fst]; [|reflexivity].
  destruct (egcd_t m1 (- m2) (a2 - a1)) as [[|[[x y]|]] tr2]; cbn [fst]; try reflexivity.
  destruct (g =? 0); [reflexivity|].
  destruct (Z.quot m2 g =? 0); reflexivity.
Qed.

(** * Bounds *)

(** |b| = |a| * |b / a| + |b % a| for truncating division *)
Lemma abs_quot_rem a b : a <> 0 ->
  Z.abs b = Z.abs a * Z.abs (Z.quot b a) + Z.abs (Z.rem b a).
Proof.
  intros Ha. rewrite <- Z.quot_abs, <- Z.rem_abs by exact Ha.
  apply Z.quot_rem'.
Qed.

Lemma abs_quot_le a b : a <> 0 -> Z.abs (Z.quot b a) <= Z.abs b.
Proof.
  intros Ha. pose proof (abs_quot_rem a b Ha) as H.
  pose proof (Z.abs_nonneg (Z.rem b a)). pose proof (Z.abs_nonneg (Z.quot b a)). nia.
Qed.

Section Bound.
Variable M : Z.
Hypothesis HM : 1 <= M.

Definition le_M (v : Z) : Prop := Z.abs v <= M.
Definition le_MM (v : Z) : Prop := Z.abs v <= M * M.

Lemma le_M_MM v : le_M v -> le_MM v.
Proof. unfold le_M, le_MM. nia. Qed.

(** ** gcd and lcm *)
Lemma gcd_t_bound a b : Z.abs a <= M -> Z.abs b <= M ->
  Forall le_M (snd (gcd_t a b)) /\
  (forall g, fst (gcd_t a b) = Some g -> 0 <= g <= M).
Proof.
  intros Ha Hb. unfold gcd_t. generalize big_fuel. intros p.
  pose proof (iter_pos_inv gcd_step_t
    (fun s => 0 <= fst (fst s) <= M /\ 0 <= snd (fst s) <= M /\ Forall le_M (snd s))
    (fun r => 0 <= fst r <= M /\ Forall le_M (snd r))) as Hinv.
  specialize (Hinv ltac:(
    intros [[x y] tr] (Hx & Hy & Htr); cbn [fst snd] in *; unfold gcd_step_t;
    destruct (Z.eqb_spec y 0) as [->|Hy0]; cbn [fst snd];
    [split; assumption|];
    pose proof (Z.rem_bound_pos x y ltac:(lia) ltac:(lia)) as Hr;
    split; [lia|]; split; [lia|]; constructor; [unfold le_M; lia|exact Htr])
    p (Z.abs a, Z.abs b, [Z.abs b; Z.abs a])).
  cbn [fst snd] in Hinv.
  specialize (Hinv ltac:(split; [lia|]; split; [lia|];
     repeat constructor; unfold le_M; rewrite Z.abs_involutive; assumption)).
  destruct (iter_pos gcd_step_t p (Z.abs a, Z.abs b, [Z.abs b; Z.abs a])) as [[[x y] tr]|[g tr]];
    cbn [fst snd] in *.
  - split; [apply Hinv|]. intros g [=].
  - split; [apply Hinv|]. intros g' [= <-]. apply Hinv.
Qed.

Lemma lcm_t_bound a b : Z.abs a <= M -> Z.abs b <= M -> Forall le_MM (snd (lcm_t a b)).
Proof.
  intros Ha Hb. destruct (gcd_t_bound a b Ha Hb) as [Htr Hg]. unfold lcm_t.
  destruct (gcd_t a b) as [[g|] tr]; cbn [fst snd] in *;
    [|eapply Forall_impl; [apply le_M_MM|exact Htr]].
  specialize (Hg g eq_refl).
  assert (Htr' : Forall le_MM tr) by (eapply Forall_impl; [apply le_M_MM|exact Htr]).
  destruct (Z.eqb_spec g 0) as [Hz|Hz]; cbn [snd]; [exact Htr'|].
  pose proof (abs_quot_le g (Z.abs a) Hz) as Hq. rewrite Z.abs_involutive in Hq.
  pose proof (Z.abs_nonneg (Z.quot (Z.abs a) g)) as Hq0.
  pose proof (Z.abs_nonneg b) as Hb0.
  constructor; [|constructor; [|exact Htr']].
  - unfold le_MM. rewrite Z.abs_mul, Z.abs_involutive. nia.
  - unfold le_MM. nia.
Qed.

(** ** egcd *)

(** The coefficient invariant: at a level with magnitudes A = |ai|, B = |bi| the returned pair
    (x, y) (x multiplies ai) satisfies [coef t A B x y], where t = |c / b0|. *)
Definition coef (t A B x y : Z) : Prop :=
  (A = 0 /\ x = 0 /\ Z.abs y <= t) \/
  (A <> 0 /\ Z.abs x <= t /\ y = 0) \/
  (Z.abs x <= B * t /\ Z.abs y <= A * t).

Lemma coef_small t A B x y : 0 <= t <= M -> 0 <= A <= M -> 0 <= B <= M ->
  coef t A B x y -> le_MM x /\ le_MM y.
Proof.
  intros Ht HA HB [(H1 & H2 & H3)|[(H1 & H2 & H3)|(H1 & H2)]]; unfold le_MM; subst; split; nia.
Qed.

(* pure arithmetic of one ascent step, on magnitudes (kept free of [Z.abs] so that the
   product inequalities are found by explicit monotonicity, not by search) *)
Lemma coef_arith3 t A B Q R X Y P D : 0 <= t -> 0 <= Q -> 0 <= Y -> 0 <= R -> B = A * Q + R ->
  X <= R * t -> Y <= A * t -> P = Q * Y -> D <= X + P -> P <= B * t /\ D <= B * t.
Proof.
  intros Ht HQ HY HR HB HX HYA HP HD.
  assert (H0 : 0 <= R * t) by (apply Z.mul_nonneg_nonneg; lia).
  assert (H1 : Q * Y <= Q * (A * t)) by (apply Z.mul_le_mono_nonneg_l; lia).
  assert (H2 : B * t = Q * (A * t) + R * t) by (subst B; ring).
  lia.
Qed.

Lemma coef_arith2 t A B Q R Y P D : 0 <= t -> 0 <= Q -> 0 <= Y -> 1 <= A -> 0 <= R ->
  B = A * Q + R -> Y <= t -> P = Q * Y -> D <= P -> P <= B * t /\ D <= B * t /\ Y <= A * t.
Proof.
  intros Ht HQ HY HA HR HB HYt HP HD.
  assert (H1 : Q * Y <= Q * t) by (apply Z.mul_le_mono_nonneg_l; lia).
  assert (H2 : 1 * Q <= A * Q) by (apply Z.mul_le_mono_nonneg_r; lia).
  assert (H3 : Q * t <= B * t) by (apply Z.mul_le_mono_nonneg_r; lia).
  assert (H4 : 1 * t <= A * t) by (apply Z.mul_le_mono_nonneg_r; lia).
  lia.
Qed.

Lemma MM_bound B t : 0 <= B <= M -> 0 <= t <= M -> B * t <= M * M.
Proof. intros HB Ht. apply Z.mul_le_mono_nonneg; lia. Qed.

Lemma coef_step t a' b' y0 x0 : 0 <= t <= M -> a' <> 0 -> Z.abs a' <= M -> Z.abs b' <= M ->
  coef t (Z.abs (Z.rem b' a')) (Z.abs a') y0 x0 ->
  coef t (Z.abs a') (Z.abs b') (x0 - Z.quot b' a' * y0) y0 /\
  le_MM (Z.quot b' a' * y0) /\ le_MM (x0 - Z.quot b' a' * y0).
Proof.
  intros Ht Hne Ha Hb Hc.
  pose proof (abs_quot_rem a' b' Hne) as Hqr.
  pose proof (Z.rem_bound_abs b' a' Hne) as Hrlt.
  pose proof (Z.abs_nonneg (Z.rem b' a')) as HR0.
  pose proof (Z.abs_nonneg (Z.quot b' a')) as HQ0.
  pose proof (Z.abs_nonneg y0) as Hy0.
  pose proof (Z.abs_nonneg x0) as Hx0.
  pose proof (Z.abs_nonneg b') as HB0.
  assert (HA1 : 1 <= Z.abs a') by lia.
  pose proof (Z.abs_triangle x0 (- (Z.quot b' a' * y0))) as Htri.
  rewrite Z.abs_opp in Htri.
  replace (x0 + - (Z.quot b' a' * y0)) with (x0 - Z.quot b' a' * y0) in Htri by ring.
  pose proof (Z.abs_mul (Z.quot b' a') y0) as Hprod.
  unfold le_MM, coef.
  generalize dependent (Z.abs (x0 - Z.quot b' a' * y0)). intros D Htri.
  generalize dependent (Z.abs (Z.quot b' a' * y0)). intros P Hprod Htri.
  pose proof (MM_bound (Z.abs b') t ltac:(lia) Ht) as HBt.
  destruct Hc as [(H1 & H2 & H3)|[(H1 & H2 & H3)|(H1 & H2)]].
  - (* remainder 0: y0 = 0, the pair is (x0, 0) *)
    subst y0. rewrite Z.abs_0 in Hprod. rewrite Z.mul_0_r in Hprod. subst P.
    assert (HD : D <= t) by lia.
    assert (HtM : t <= M * M).
    { assert (1 * t <= M * M) by (apply Z.mul_le_mono_nonneg; lia). lia. }
    split; [right; left; split; [lia|]; split; [exact HD|reflexivity]|]. split; lia.
  - (* x0 = 0 *)
    subst x0. rewrite Z.abs_0 in *.
    destruct (coef_arith2 t (Z.abs a') (Z.abs b') (Z.abs (Z.quot b' a')) (Z.abs (Z.rem b' a'))
                (Z.abs y0) P D) as (Hp & Hd & Hy); lia.
  - destruct (coef_arith3 t (Z.abs a') (Z.abs b') (Z.abs (Z.quot b' a')) (Z.abs (Z.rem b' a'))
                (Z.abs x0) (Z.abs y0) P D) as (Hp & Hd); lia.
Qed.

Lemma chain_bound a b ai bi qs : chain a b ai bi qs -> Z.abs a <= M -> Z.abs b <= M ->
  Z.abs ai <= M /\ Z.abs bi <= M.
Proof.
  induction 1 as [|a' b' qs Hch IH Hne]; intros Ha Hb; [split; assumption|].
  destruct (IH Ha Hb) as [Ha' Hb']. pose proof (Z.rem_bound_abs b' a' Hne). lia.
Qed.

Lemma chain_up_bound t a b ai bi qs : chain a b ai bi qs ->
  0 <= t <= M -> Z.abs a <= M -> Z.abs b <= M ->
  forall y0 x0 tr, coef t (Z.abs ai) (Z.abs bi) y0 x0 -> Forall le_MM tr ->
  Forall le_MM (snd (egcd_up_t qs (y0, x0, tr))).
Proof.
  intros Hch Ht Ha Hb.
  induction Hch as [|a' b' qs Hch IH Hne]; intros y0 x0 tr Hc Htr.
  - exact Htr.
  - rewrite egcd_up_t_cons. cbn [up_step_t].
    destruct (chain_bound a b a' b' qs Hch Ha Hb) as [Ha' Hb'].
    destruct (coef_step t a' b' y0 x0 Ht Hne Ha' Hb' Hc) as (Hc' & Hp & Hd).
    apply IH; [exact Hc'|]. constructor; [exact Hd|]. constructor; [exact Hp|exact Htr].
Qed.

Lemma egcd_t_bound a b c : Z.abs a <= M -> Z.abs b <= M -> Z.abs c <= M ->
  Forall le_MM (snd (egcd_t a b c)).
Proof.
  intros Ha Hb Hc. unfold egcd_t. generalize big_fuel. intros p.
  pose proof (iter_pos_inv egcd_down_t
    (fun s => chain a b (fst (fst (fst s))) (snd (fst (fst s))) (snd (fst s)) /\ Forall le_M (snd s))
    (fun r => chain a b 0 (fst (fst r)) (snd (fst r)) /\ Forall le_M (snd r))) as Hinv.
  specialize (Hinv ltac:(
    intros [[[ai bi] qs] tr] (Hch & Htr); cbn [fst snd] in *; unfold egcd_down_t;
    destruct (Z.eqb_spec ai 0) as [->|Hne]; cbn [fst snd];
    [split; assumption|];
    destruct (chain_bound a b ai bi qs Hch Ha Hb) as [Hai Hbi];
    pose proof (Z.rem_bound_abs bi ai Hne) as Hr;
    pose proof (abs_quot_le ai bi Hne) as Hq;
    split; [apply chain_cons; assumption|];
    constructor; [unfold le_M; lia|]; constructor; [unfold le_M; lia|exact Htr])
    p (a, b, [], [c; b; a])).
  cbn [fst snd] in Hinv.
  specialize (Hinv ltac:(split; [apply chain_nil|repeat constructor; assumption])).
  destruct (iter_pos egcd_down_t p (a, b, [], [c; b; a])) as [[[[ai bi] qs] tr]|[[b0 qs] tr]];
    cbn [fst snd] in *; destruct Hinv as [Hch Htr].
  - eapply Forall_impl; [apply le_M_MM|exact Htr].
  - assert (Htr' : Forall le_MM tr) by (eapply Forall_impl; [apply le_M_MM|exact Htr]).
    destruct (Z.eqb_spec b0 0) as [Hz|Hb0]; cbn [snd]; [exact Htr'|].
    pose proof (Z.rem_bound_abs c b0 Hb0) as Hr.
    pose proof (abs_quot_le b0 c Hb0) as Hq.
    destruct (chain_bound a b 0 b0 qs Hch Ha Hb) as [_ Hb0M].
    assert (Hrem : le_MM (Z.rem c b0)) by (apply le_M_MM; unfold le_M; lia).
    destruct (negb (Z.rem c b0 =? 0)); cbn [snd]; [constructor; assumption|].
    pose proof (chain_up_bound (Z.abs (Z.quot c b0)) a b 0 b0 qs Hch
                  ltac:(pose proof (Z.abs_nonneg (Z.quot c b0)); lia) Ha Hb
                  0 (Z.quot c b0) (Z.quot c b0 :: Z.rem c b0 :: tr)) as Hup.
    destruct (egcd_up_t qs _) as [[x y] tr'] eqn:Heq. cbn [snd] in *. apply Hup.
    + left. rewrite Z.abs_0. split; [reflexivity|]. split; [reflexivity|lia].
    + constructor; [apply le_M_MM; unfold le_M; lia|]. constructor; assumption.
Qed.

(** ** crt *)
Definition le_MMM (v : Z) : Prop := Z.abs v <= M * M + M.

Lemma le_MM_MMM v : le_MM v -> le_MMM v.
Proof. unfold le_MM, le_MMM. lia. Qed.
Lemma le_M_MMM v : le_M v -> le_MMM v.
Proof. unfold le_M, le_MMM. nia. Qed.

Lemma crt_t_bound a1 m1 a2 m2 : 1 <= m1 <= M -> 1 <= m2 <= M -> 0 <= a1 < m1 -> 0 <= a2 < m2 ->
  Forall le_MMM (snd (crt_t a1 m1 a2 m2)).
Proof.
  intros Hm1 Hm2 Ha1 Ha2.
  destruct (gcd_t_bound m1 m2 ltac:(lia) ltac:(lia)) as [Htr1 Hg].
  pose proof (egcd_t_bound m1 (- m2) (a2 - a1) ltac:(lia) ltac:(lia) ltac:(lia)) as Htr2.
  unfold crt_t.
  destruct (gcd_t m1 m2) as [[g|] tr1]; cbn [fst snd] in *;
    [|eapply Forall_impl; [apply le_M_MMM|exact Htr1]].
  specialize (Hg g eq_refl).
  destruct (egcd_t m1 (- m2) (a2 - a1)) as [e tr2]. cbn [snd] in Htr2.
  assert (Htr : Forall le_MMM (tr2 ++ tr1)).
  { apply Forall_app. split; [eapply Forall_impl; [apply le_MM_MMM|exact Htr2]
                              |eapply Forall_impl; [apply le_M_MMM|exact Htr1]]. }
  destruct e as [|[[x y]|]]; cbn [snd]; try exact Htr.
  destruct (Z.eqb_spec g 0) as [Hz|Hz]; cbn [snd]; [exact Htr|].
  pose proof (abs_quot_le g m2 Hz) as Hq.
  destruct (Z.eqb_spec (Z.quot m2 g) 0) as [Hz'|Hz']; cbn [snd].
  - constructor; [apply le_M_MMM; unfold le_M; lia|exact Htr].
  - set (m2' := Z.quot m2 g) in *.
    pose proof (Z.rem_bound_abs x m2' Hz') as Hr1.
    pose proof (Z.rem_bound_abs (Z.rem x m2' + m2') m2' Hz') as Hr2.
    set (x' := Z.rem (Z.rem x m2' + m2') m2') in *.
    assert (Hp : Z.abs (m1 * x') <= M * M).
    { rewrite Z.abs_mul. pose proof (Z.abs_nonneg x'). nia. }
    cbn [app]. repeat (constructor; [unfold le_MMM; try lia; try nia|]). exact Htr.
Qed.
End Bound.

(** * The statements for operands up to 2^20 (and the general form) *)
Theorem fits_general M a b c : 1 <= M -> Z.abs a <= M -> Z.abs b <= M -> Z.abs c <= M ->
  Forall (fun v => Z.abs v <= M) (snd (gcd_t a b)) /\
  Forall (fun v => Z.abs v <= M * M) (snd (lcm_t a b)) /\
  Forall (fun v => Z.abs v <= M * M) (snd (egcd_t a b c)).
Proof.
  intros HM Ha Hb Hc. split; [apply (gcd_t_bound M a b Ha Hb)|].
  split; [apply (lcm_t_bound M HM a b Ha Hb)|apply (egcd_t_bound M HM a b c Ha Hb Hc)].
Qed.

Theorem fits_general_crt M a1 m1 a2 m2 :
  1 <= m1 <= M -> 1 <= m2 <= M -> 0 <= a1 < m1 -> 0 <= a2 < m2 ->
  Forall (fun v => Z.abs v <= M * M + M) (snd (crt_t a1 m1 a2 m2)).
Proof. intros Hm1 Hm2 Ha1 Ha2. apply (crt_t_bound M ltac:(lia) a1 m1 a2 m2 Hm1 Hm2 Ha1 Ha2). Qed.

Theorem fits_2_20 a b c : Z.abs a <= 2 ^ 20 -> Z.abs b <= 2 ^ 20 -> Z.abs c <= 2 ^ 20 ->
  Forall (fun v => Z.abs v < 2 ^ 62) (snd (gcd_t a b)) /\
  Forall (fun v => Z.abs v < 2 ^ 62) (snd (lcm_t a b)) /\
  Forall (fun v => Z.abs v < 2 ^ 62) (snd (egcd_t a b c)).
Proof.
  intros Ha Hb Hc.
  destruct (fits_general (2 ^ 20) a b c ltac:(lia) Ha Hb Hc) as (H1 & H2 & H3).
  repeat split; (eapply Forall_impl; [|eassumption]); cbv beta; intros v Hv; lia.
Qed.

Theorem fits_2_20_crt a1 m1 a2 m2 :
  1 <= m1 <= 2 ^ 20 -> 1 <= m2 <= 2 ^ 20 -> 0 <= a1 < m1 -> 0 <= a2 < m2 ->
  Forall (fun v => Z.abs v < 2 ^ 62) (snd (crt_t a1 m1 a2 m2)).
Proof.
  intros Hm1 Hm2 Ha1 Ha2.
  pose proof (fits_general_crt (2 ^ 20) a1 m1 a2 m2 Hm1 Hm2 Ha1 Ha2) as H.
  eapply Forall_impl; [|exact H]. cbv beta. intros v Hv. lia.
Qed.

Theorem trace_same a b c a1 m1 a2 m2 :
  fst (gcd_t a b) = gcd a b /\ fst (lcm_t a b) = lcm a b /\
  fst (egcd_t a b c) = egcd a b c /\ fst (crt_t a1 m1 a2 m2) = crt a1 m1 a2 m2.
Proof.
  split; [apply gcd_t_same|]. split; [apply lcm_t_same|]. split; [apply egcd_t_same|apply crt_t_same].
Qed.
