(** C11 — non-vacuity: the model runs on literals, and every hypothesis of every
    property theorem is met by a concrete instance. *)
From Coq Require Import ZArith List Lia.
From RlibV Require Import C11.Model C11.Corr C11.Trace C11.Properties.
Import ListNotations.
Open Scope Z_scope.

Example ex_gcd_run : gcd 12 (-18) = Some 6.
Proof. vm_compute. reflexivity. Qed.
Example ex_gcd : gcd 12 (-18) = Some (Z.gcd 12 (-18)).
Proof. apply c11_gcd. vm_compute. reflexivity. Qed.

Example ex_egcd_run : egcd 12 (-18) 30 = Ret (Some (-5, -5)).
Proof. vm_compute. reflexivity. Qed.
Example ex_egcd_sound : 12 * (-5) + (-18) * (-5) = 30.
Proof. apply c11_egcd_sound. vm_compute. reflexivity. Qed.
Example ex_egcd_none_run : egcd 12 (-18) 7 = Ret None.
Proof. vm_compute. reflexivity. Qed.
Example ex_egcd_complete :
  egcd 12 (-18) 7 <> Panic /\ (egcd 12 (-18) 7 = Ret None <-> ~ (Z.gcd 12 (-18) | 7)).
Proof. apply c11_egcd_complete; [discriminate|vm_compute; reflexivity]. Qed.
Example ex_egcd_zero : egcd 0 0 5 = Panic.
Proof. apply c11_egcd_zero_panics. Qed.

Example ex_lcm_run : lcm 12 (-18) = Some 36.
Proof. vm_compute. reflexivity. Qed.
Example ex_lcm : lcm 12 (-18) = Some (Z.lcm 12 (-18)).
Proof. apply c11_lcm; [discriminate|vm_compute; reflexivity]. Qed.
Example ex_lcm_zero : lcm 0 0 = None.
Proof. exact c11_lcm_zero_panics. Qed.

Example ex_crt_run : crt 2 4 4 6 = Ret (Some 10).
Proof. vm_compute. reflexivity. Qed.
Example ex_crt_none_run : crt 1 4 4 6 = Ret None.
Proof. vm_compute. reflexivity. Qed.
(** compatible instance: all four range hypotheses and the divisibility premise hold *)
Example ex_crt_compatible :
  exists x, crt 2 4 4 6 = Ret (Some x) /\ 0 <= x < Z.lcm 4 6 /\ x mod 4 = 2 /\ x mod 6 = 4.
Proof.
  apply (c11_crt 2 4 4 6); try lia.
  exists 1. reflexivity.
Qed.
(** incompatible instance *)
Example ex_crt_incompatible : crt 1 4 4 6 = Ret None.
Proof.
  apply (c11_crt 1 4 4 6); try lia.
  intros [k Hk]. change (Z.gcd 4 6) with 2 in Hk. lia.
Qed.
Example ex_crt_unique : 10 = 10.
Proof.
  apply (c11_crt_unique 4 6 10 10); try lia; try reflexivity;
    (split; [lia|vm_compute; reflexivity]).
Qed.

Example ex_in_scope : in_scope (CEgcd 12 (-18) 30 (Ret (Some (-5, -5)))).
Proof. cbn [in_scope]. lia. Qed.
Example ex_model_implies_spec : spec_check (CEgcd 12 (-18) 30 (Ret (Some (-5, -5)))) = true.
Proof. apply c11_model_implies_spec; [exact ex_in_scope|vm_compute; reflexivity]. Qed.
Example ex_model_implies_spec_crt : spec_check (CCrt 2 4 4 6 (Ret (Some 10))) = true.
Proof. apply c11_model_implies_spec; [cbn [in_scope]; lia|vm_compute; reflexivity]. Qed.

Example ex_egcd_t_run :
  egcd_t 12 (-18) 30 = (Ret (Some (-5, -5)), [-5; 5; -5; 0; -5; 0; -2; 0; -1; -6; 30; -18; 12]).
Proof. vm_compute. reflexivity. Qed.
Example ex_crt_t_run : fst (crt_t 2 4 4 6) = Ret (Some 10) /\ length (snd (crt_t 2 4 4 6)) = 24%nat.
Proof. vm_compute. split; reflexivity. Qed.
Example ex_fits_2_20 :
  Forall (fun v => Z.abs v < 2 ^ 62) (snd (gcd_t 1048576 (-1048575))) /\
  Forall (fun v => Z.abs v < 2 ^ 62) (snd (lcm_t 1048576 (-1048575))) /\
  Forall (fun v => Z.abs v < 2 ^ 62) (snd (egcd_t 1048576 (-1048575) 1048573)).
Proof. apply c11_fits_2_20; lia. Qed.
Example ex_fits_2_20_crt :
  Forall (fun v => Z.abs v < 2 ^ 62) (snd (crt_t 1048574 1048575 1048575 1048576)).
Proof. apply c11_fits_2_20_crt; lia. Qed.
(** the general form at M = 2^31: operands up to 2^31 keep every intermediate within i64 *)
Example ex_fits_general :
  Forall (fun v => Z.abs v <= 2 ^ 31 * 2 ^ 31) (snd (egcd_t 2147483648 (-2147483647) 2147483645)).
Proof. apply (c11_fits_general (2 ^ 31) 2147483648 (-2147483647) 2147483645); lia. Qed.
Example ex_fits_general_crt :
  Forall (fun v => Z.abs v <= 2 ^ 31 * 2 ^ 31 + 2 ^ 31) (snd (crt_t 2 4 4 6)).
Proof. apply (c11_fits_general_crt (2 ^ 31)); lia. Qed.
Example ex_trace_same : fst (egcd_t 12 (-18) 30) = egcd 12 (-18) 30.
Proof. apply (c11_trace_same 12 (-18) 30 0 1 0 1). Qed.
