(** C11 — executable model of rlib/gcd/src/lib.rs (gcd, lcm, egcd, crt).

    Integers are unbounded [Z]: the property restricts itself to magnitudes
    for which no intermediate value overflows.  Rust's [/] and [%] on signed
    integers truncate towards zero: [Z.quot] and [Z.rem].  [None] models a
    panic (division by zero).  Definitions only; proofs are in Proofs.v. *)
From Coq Require Import ZArith List.
From RlibV Require Import Common.Iter.
Import ListNotations.
Open Scope Z_scope.

(** while b != 0 { a %= b; swap(a, b) } *)
Definition gcd_step (s : Z * Z) : (Z * Z) + Z :=
  let '(a, b) := s in
  if b =? 0 then inr a else inl (b, Z.rem a b).

(** [gcd a b]: [into_abs] on both, then the loop.  [None] only if the fuel ran out. *)
Definition gcd (a b : Z) : option Z :=
  match iter_pos gcd_step big_fuel (Z.abs a, Z.abs b) with
  | inr g => Some g
  | inl _ => None
  end.

(** a.abs() / gcd(a, b) * b.abs()  — division by zero panics when a = b = 0 *)
Definition lcm (a b : Z) : option Z :=
  match gcd a b with
  | Some g => if g =? 0 then None else Some (Z.quot (Z.abs a) g * Z.abs b)
  | None => None
  end.

(** egcd is a linear recursion: the descent (a, b) -> (b % a, a) pushes the
    quotient b / a, the base case is reached at a = 0, and the ascent maps
    (y0, x0) to (x0 - (b / a) * y0, y0) once per pushed quotient.  The model
    keeps the call stack as an explicit list of quotients. *)
Definition egcd_down (s : Z * Z * list Z) : (Z * Z * list Z) + (Z * list Z) :=
  let '(a, b, qs) := s in
  if a =? 0 then inr (b, qs) else inl (Z.rem b a, a, Z.quot b a :: qs).

Inductive outcome (A : Type) := Panic | Ret (r : A).
Arguments Panic {A}. Arguments Ret {A} r.

Definition egcd_up (qs : list Z) (r : Z * Z) : Z * Z :=
  fold_left (fun '(y0, x0) q => (x0 - q * y0, y0)) qs r.

(** Result: [Panic] (division by zero: a = b = 0, or out of fuel), or [Ret None]
    (no solution), or [Ret (Some (x, y))]. *)
Definition egcd (a b c : Z) : outcome (option (Z * Z)) :=
  match iter_pos egcd_down big_fuel (a, b, []) with
  | inl _ => Panic
  | inr (b0, qs) =>
      if b0 =? 0 then Panic
      else if negb (Z.rem c b0 =? 0) then Ret None
      else Ret (Some (egcd_up qs (0, Z.quot c b0)))
  end.

Definition crt (a1 m1 a2 m2 : Z) : outcome (option Z) :=
  match gcd m1 m2 with
  | None => Panic
  | Some g =>
    match egcd m1 (- m2) (a2 - a1) with
    | Panic => Panic
    | Ret None => Ret None
    | Ret (Some (x, _)) =>
        if g =? 0 then Panic else
        let m2' := Z.quot m2 g in
        if m2' =? 0 then Panic else
        let x' := Z.rem (Z.rem x m2' + m2') m2' in
        Ret (Some (m1 * x' + a1))
    end
  end.
