(** C11 — egcd: soundness (Bezout identity) and completeness. *)
From Coq Require Import ZArith List Lia Bool.
From RlibV Require Import Common.Iter C11.Model C11.Proofs.
Import ListNotations.
Open Scope Z_scope.

(** The descent of egcd as a relation: from (a, b) the recursion reaches (a', b') having pushed qs. *)
Inductive chain (a b : Z) : Z -> Z -> list Z -> Prop :=
| chain_nil : chain a b a b []
| chain_cons a' b' qs : chain a b a' b' qs -> a' <> 0 ->
    chain a b (Z.rem b' a') a' (Z.quot b' a' :: qs).

Definition up_step : Z * Z -> Z -> Z * Z := fun '(y0, x0) q => (x0 - q * y0, y0).

Lemma egcd_up_eq qs r : egcd_up qs r = fold_left up_step qs r.
Proof. reflexivity. Qed.

Lemma egcd_up_cons q qs r : egcd_up (q :: qs) r = egcd_up qs (up_step r q).
Proof. reflexivity. Qed.

(** Ascent: a Bezout pair for the deepest level is mapped to one for the top level. *)
Lemma chain_up a b c ai bi qs : chain a b ai bi qs ->
  forall y0 x0, ai * y0 + bi * x0 = c ->
  a * fst (egcd_up qs (y0, x0)) + b * snd (egcd_up qs (y0, x0)) = c.
Proof.
  induction 1 as [|a' b' qs Hch IH Hne]; intros y0 x0 Heq.
  - cbn [egcd_up fold_left fst snd]. exact Heq.
  - rewrite egcd_up_cons. cbn [up_step]. apply IH.
    pose proof (Z.quot_rem' b' a') as Hqr. nia.
Qed.

Definition down_inv (a b : Z) (s : Z * Z * list Z) : Prop :=
  let '(ai, bi, qs) := s in chain a b ai bi qs.
Definition down_post (a b : Z) (r : Z * list Z) : Prop :=
  let '(b0, qs) := r in chain a b 0 b0 qs.

Lemma down_step_inv a b s : down_inv a b s ->
  match egcd_down s with inl s' => down_inv a b s' | inr r => down_post a b r end.
Proof.
  destruct s as [[ai bi] qs]. unfold down_inv, egcd_down. intros Hch.
  destruct (Z.eqb_spec ai 0) as [->|Hne].
  - exact Hch.
  - apply chain_cons; assumption.
Qed.

Theorem egcd_sound a b c x y : egcd a b c = Ret (Some (x, y)) -> a * x + b * y = c.
Proof.
  unfold egcd. intros He.
  pose proof (iter_pos_inv egcd_down (down_inv a b) (down_post a b) (down_step_inv a b)
                big_fuel (a, b, []) (chain_nil a b)) as Hinv.
  destruct (iter_pos egcd_down big_fuel (a, b, [])) as [s|[b0 qs]]; [discriminate|].
  cbn [down_post] in Hinv.
  destruct (Z.eqb_spec b0 0) as [|Hb0]; [discriminate|].
  destruct (Z.eqb_spec (Z.rem c b0) 0) as [Hrem|Hrem]; cbn [negb] in He; [|discriminate].
  injection He as He.
  pose proof (chain_up a b c 0 b0 qs Hinv 0 (Z.quot c b0)) as Hup.
  rewrite He in Hup. cbn [fst snd] in Hup. apply Hup.
  pose proof (Z.quot_rem' c b0) as Hqr. lia.
Qed.

(** Termination of the descent and the value reached at the bottom. *)
Lemma chain_gcd a b ai bi qs : chain a b ai bi qs -> Z.gcd ai bi = Z.gcd a b.
Proof.
  induction 1 as [|a' b' qs Hch IH Hne]; [reflexivity|].
  rewrite Z.gcd_rem by exact Hne. exact IH.
Qed.

Lemma egcd_descent a b : Z.abs a < 2 ^ 130 ->
  exists b0 qs, iter_pos egcd_down big_fuel (a, b, []) = inr (b0, qs)
                /\ chain a b 0 b0 qs /\ Z.abs b0 = Z.gcd a b.
Proof.
  intros Ha.
  destruct (iter_pos_spec egcd_down (down_inv a b) (down_post a b)
              (fun s => Z.abs (fst (fst s)))) with (p := big_fuel) (s := (a, b, @nil Z))
    as ([b0 qs] & Hr & Hpost).
  - intros [[ai bi] qs]. unfold down_inv, egcd_down. intros Hch.
    destruct (Z.eqb_spec ai 0) as [->|Hne].
    + exact Hch.
    + cbn [fst]. split; [apply chain_cons; assumption|].
      pose proof (Z.rem_bound_abs bi ai Hne) as Hlt. lia.
  - apply chain_nil.
  - cbn [fst]. rewrite big_fuel_val. lia.
  - exists b0, qs. cbn [down_post] in Hpost. split; [exact Hr|]. split; [exact Hpost|].
    apply chain_gcd in Hpost. rewrite Z.gcd_0_l in Hpost. exact Hpost.
Qed.

Lemma gcd_eq_0_both a b : Z.gcd a b = 0 -> (a, b) = (0, 0).
Proof.
  intros Hg. apply Z.gcd_eq_0 in Hg. destruct Hg as [-> ->]. reflexivity.
Qed.

(** The three possible results of egcd, in terms of the bottom value b0. *)
Lemma egcd_cases a b c : (a, b) <> (0, 0) -> Z.abs a < 2 ^ 130 ->
  exists b0 qs, chain a b 0 b0 qs /\ Z.abs b0 = Z.gcd a b /\ b0 <> 0 /\
    iter_pos egcd_down big_fuel (a, b, []) = inr (b0, qs) /\
    ((~ (Z.gcd a b | c) /\ Z.rem c b0 <> 0 /\ egcd a b c = Ret None) \/
     ((Z.gcd a b | c) /\ Z.rem c b0 = 0 /\ egcd a b c = Ret (Some (egcd_up qs (0, Z.quot c b0))))).
Proof.
  intros Hne Ha. destruct (egcd_descent a b Ha) as (b0 & qs & Hrun & Hch & Hg).
  exists b0, qs. assert (Hb0 : b0 <> 0).
  { intros ->. apply Hne, gcd_eq_0_both. rewrite <- Hg. reflexivity. }
  split; [exact Hch|]. split; [exact Hg|]. split; [exact Hb0|]. split; [exact Hrun|].
  unfold egcd. rewrite Hrun.
  destruct (Z.eqb_spec b0 0) as [|_]; [contradiction|].
  assert (Hdiv : Z.rem c b0 = 0 <-> (Z.gcd a b | c)).
  { rewrite Z.rem_divide by exact Hb0. rewrite <- Hg. symmetry. apply Z.divide_abs_l. }
  destruct (Z.eqb_spec (Z.rem c b0) 0) as [Hrem|Hrem]; cbn [negb].
  - right. split; [apply Hdiv; exact Hrem|]. split; [exact Hrem|reflexivity].
  - left. split; [intros Hd; apply Hrem, Hdiv, Hd|]. split; [exact Hrem|reflexivity].
Qed.

Theorem egcd_complete a b c : (a, b) <> (0, 0) -> Z.abs a < 2 ^ 130 ->
  egcd a b c <> Panic /\ (egcd a b c = Ret None <-> ~ (Z.gcd a b | c)).
Proof.
  intros Hne Ha.
  destruct (egcd_cases a b c Hne Ha) as (b0 & qs & _ & _ & _ & _ & [(Hnd & _ & He)|(Hd & _ & He)]);
    rewrite He; (split; [discriminate|]).
  - split; [intros _; exact Hnd|reflexivity].
  - split; [discriminate|intros Hnd; contradiction].
Qed.

(** Corollary used by crt and by the correspondence proof. *)
Lemma egcd_some a b c : (a, b) <> (0, 0) -> Z.abs a < 2 ^ 130 -> (Z.gcd a b | c) ->
  exists x y, egcd a b c = Ret (Some (x, y)) /\ a * x + b * y = c.
Proof.
  intros Hne Ha Hd.
  destruct (egcd_cases a b c Hne Ha) as (b0 & qs & _ & _ & _ & _ & [(Hnd & _ & _)|(_ & _ & He)]);
    [contradiction|].
  destruct (egcd_up qs (0, Z.quot c b0)) as [x y] eqn:Hup.
  exists x, y. split; [exact He|]. apply egcd_sound. exact He.
Qed.

Lemma egcd_zero_panics c : egcd 0 0 c = Panic.
Proof. reflexivity. Qed.
