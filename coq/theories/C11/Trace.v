(** C11 — definitions used only in statements: the scope predicate of the
    correspondence corollary, and instrumented variants of the model functions
    that additionally collect every intermediate value.  Definitions only. *)
From Coq Require Import ZArith List.
From RlibV Require Import Common.Iter C11.Model C11.Corr.
Import ListNotations.
Open Scope Z_scope.

(** magnitudes for which the model's fuel is known to suffice *)
Definition in_scope (c : case) : Prop :=
  match c with
  | CGcd a b _ => Z.abs a < 2 ^ 130 /\ Z.abs b < 2 ^ 130
  | CLcm a b _ => Z.abs a < 2 ^ 130 /\ Z.abs b < 2 ^ 130
  | CEgcd a b c _ => Z.abs a < 2 ^ 130 /\ Z.abs b < 2 ^ 130 /\ Z.abs c < 2 ^ 130
  | CCrt a1 m1 a2 m2 _ =>
      Z.abs a1 < 2 ^ 130 /\ Z.abs m1 < 2 ^ 130 /\ Z.abs a2 < 2 ^ 130 /\ Z.abs m2 < 2 ^ 130
  end.
