(** C11 — definitions used only in statements: the scope predicate of the
    correspondence corollary, and instrumented variants of the model functions
    that additionally collect every intermediate value.  Definitions only. *)
From Coq Require Import ZArith List.
From RlibV Require Import Common.Iter C11.Model C11.Corr.
Import ListNotations.
Open Scope Z_scope.

(** magnitudes for which the model's fuel is known to suffice *)
Definition in_scope (c : case) : Prop :=
  match c with
  | CGcd a b _ => Z.abs a < 2 ^ 130 /\ Z.abs b < 2 ^ 130
  | CLcm a b _ => Z.abs a < 2 ^ 130 /\ Z.abs b < 2 ^ 130
  | CEgcd a b c _ => Z.abs a < 2 ^ 130 /\ Z.abs b < 2 ^ 130 /\ Z.abs c < 2 ^ 130
  | CCrt a1 m1 a2 m2 _ =>
      Z.abs a1 < 2 ^ 130 /\ Z.abs m1 < 2 ^ 130 /\ Z.abs a2 < 2 ^ 130 /\ Z.abs m2 < 2 ^ 130
  end.

(** * Instrumented variants: same computation, plus the list of every intermediate value
    (most recent first).  The second component is the trace. *)

(** gcd: |a|, |b| (into_abs) and every remainder *)
Definition gcd_step_t (s : Z * Z * list Z) : (Z * Z * list Z) + (Z * list Z) :=
  let '(a, b, tr) := s in
  if b =? 0 then inr (a, tr) else inl (b, Z.rem a b, Z.rem a b :: tr).

Definition gcd_t (a b : Z) : option Z * list Z :=
  match iter_pos gcd_step_t big_fuel (Z.abs a, Z.abs b, [Z.abs b; Z.abs a]) with
  | inr (g, tr) => (Some g, tr)
  | inl (_, _, tr) => (None, tr)
  end.

(** lcm: the trace of gcd, then |a| / g and the product with |b| *)
Definition lcm_t (a b : Z) : option Z * list Z :=
  let '(og, tr) := gcd_t a b in
  match og with
  | Some g =>
      if g =? 0 then (None, tr)
      else (Some (Z.quot (Z.abs a) g * Z.abs b),
            Z.quot (Z.abs a) g * Z.abs b :: Z.quot (Z.abs a) g :: tr)
  | None => (None, tr)
  end.

(** egcd: the arguments, every remainder and quotient of the descent, c % b0 and c / b0 at the
    bottom, every product q*y0 and every difference x0 - q*y0 of the ascent *)
Definition egcd_down_t (s : Z * Z * list Z * list Z)
  : (Z * Z * list Z * list Z) + (Z * list Z * list Z) :=
  let '(a, b, qs, tr) := s in
  if a =? 0 then inr (b, qs, tr)
  else inl (Z.rem b a, a, Z.quot b a :: qs, Z.quot b a :: Z.rem b a :: tr).

Definition up_step_t : Z * Z * list Z -> Z -> Z * Z * list Z :=
  fun '(y0, x0, tr) q => (x0 - q * y0, y0, (x0 - q * y0) :: q * y0 :: tr).

Definition egcd_up_t (qs : list Z) (r : Z * Z * list Z) : Z * Z * list Z :=
  fold_left up_step_t qs r.

Definition egcd_t (a b c : Z) : outcome (option (Z * Z)) * list Z :=
  match iter_pos egcd_down_t big_fuel (a, b, [], [c; b; a]) with
  | inl (_, _, _, tr) => (Panic, tr)
  | inr (b0, qs, tr) =>
      if b0 =? 0 then (Panic, tr)
      else if negb (Z.rem c b0 =? 0) then (Ret None, Z.rem c b0 :: tr)
      else let '(x, y, tr') :=
             egcd_up_t qs (0, Z.quot c b0, Z.quot c b0 :: Z.rem c b0 :: tr) in
           (Ret (Some (x, y)), tr')
  end.

(** crt: the trace of gcd m1 m2, of egcd m1 (-m2) (a2-a1) (which starts with a2-a1, -m2, m1),
    then m2/g, x % m2', x % m2' + m2', x', m1*x', m1*x' + a1 *)
Definition crt_t (a1 m1 a2 m2 : Z) : outcome (option Z) * list Z :=
  let '(og, tr1) := gcd_t m1 m2 in
  match og with
  | None => (Panic, tr1)
  | Some g =>
    let '(e, tr2) := egcd_t m1 (- m2) (a2 - a1) in
    match e with
    | Panic => (Panic, tr2 ++ tr1)
    | Ret None => (Ret None, tr2 ++ tr1)
    | Ret (Some (x, _)) =>
        if g =? 0 then (Panic, tr2 ++ tr1) else
        let m2' := Z.quot m2 g in
        if m2' =? 0 then (Panic, m2' :: tr2 ++ tr1) else
        let x' := Z.rem (Z.rem x m2' + m2') m2' in
        (Ret (Some (m1 * x' + a1)),
         [m1 * x' + a1; m1 * x'; x'; Z.rem x m2' + m2'; Z.rem x m2'; m2'] ++ tr2 ++ tr1)
    end
  end.
