(** C11 — lcm. *)
From Coq Require Import ZArith List Lia Bool.
From RlibV Require Import Common.Iter C11.Model C11.Proofs.
Import ListNotations.
Open Scope Z_scope.

Lemma lcm_formula g a' b' : 0 < g ->
  Z.quot (Z.abs (a' * g)) g * Z.abs (b' * g) = Z.abs (a' * g * (b' * g / g)).
Proof.
  intros Hg. rewrite Z.div_mul by lia. rewrite !Z.abs_mul.
  rewrite (Z.abs_eq g) by lia. rewrite Z.quot_mul by lia. ring.
Qed.

Theorem lcm_correct a b : (a, b) <> (0, 0) -> Z.abs b < 2 ^ 130 -> lcm a b = Some (Z.lcm a b).
Proof.
  intros Hne Hb. unfold lcm. rewrite gcd_correct by exact Hb.
  assert (Hg : 0 < Z.gcd a b).
  { pose proof (Z.gcd_nonneg a b) as Hnn.
    destruct (Z.eq_dec (Z.gcd a b) 0) as [Hz|Hz]; [|lia].
    apply Z.gcd_eq_0 in Hz. destruct Hz as [-> ->]. contradiction. }
  destruct (Z.eqb_spec (Z.gcd a b) 0) as [Hz|_]; [lia|].
  destruct (Z.gcd_divide_l a b) as [a' Ha]. destruct (Z.gcd_divide_r a b) as [b' Hb'].
  pose proof (lcm_formula (Z.gcd a b) a' b' Hg) as Hf.
  rewrite <- Ha, <- Hb' in Hf. unfold Z.lcm. rewrite Hf. reflexivity.
Qed.

Theorem lcm_zero_panics : lcm 0 0 = None.
Proof. reflexivity. Qed.
