(** C11 — property theorems (statements only; proofs by [exact]). *)
From Coq Require Import ZArith.
From RlibV Require Import C11.Model C11.Proofs.
Open Scope Z_scope.

(** gcd is the non-negative greatest common divisor for operands of either sign, gcd 0 0 = 0 *)
Theorem c11_gcd : forall a b : Z, Z.abs b < 2 ^ 130 -> gcd a b = Some (Z.gcd a b).
Proof. exact gcd_correct. Qed.
