(** C11 — property theorems (statements only; proofs by [exact]). *)
From Coq Require Import ZArith List.
From RlibV Require Import C11.Model C11.Corr C11.Trace C11.Proofs C11.ProofsEgcd C11.ProofsLcm C11.ProofsCrt C11.ProofsCorr C11.ProofsFits.
Open Scope Z_scope.

(** gcd is the non-negative greatest common divisor for operands of either sign, gcd 0 0 = 0 *)
Theorem c11_gcd : forall a b : Z, Z.abs b < 2 ^ 130 -> gcd a b = Some (Z.gcd a b).
Proof. exact gcd_correct. Qed.

(** whatever egcd returns is a solution of a*x + b*y = c (no magnitude bound: partial correctness) *)
Theorem c11_egcd_sound : forall a b c x y : Z, egcd a b c = Ret (Some (x, y)) -> a * x + b * y = c.
Proof. exact egcd_sound. Qed.

(** egcd does not panic unless a = b = 0, and answers None exactly when gcd a b does not divide c *)
Theorem c11_egcd_complete : forall a b c : Z, (a, b) <> (0, 0) -> Z.abs a < 2 ^ 130 ->
  egcd a b c <> Panic /\ (egcd a b c = Ret None <-> ~ (Z.gcd a b | c)).
Proof. exact egcd_complete. Qed.

(** the corner outside the quantifier: division by zero *)
Theorem c11_egcd_zero_panics : forall c : Z, egcd 0 0 c = Panic.
Proof. exact egcd_zero_panics. Qed.

(** lcm is the non-negative least common multiple unless both operands are zero *)
Theorem c11_lcm : forall a b : Z, (a, b) <> (0, 0) -> Z.abs b < 2 ^ 130 -> lcm a b = Some (Z.lcm a b).
Proof. exact lcm_correct. Qed.

(** the corner outside the quantifier: lcm 0 0 divides by gcd 0 0 = 0 *)
Theorem c11_lcm_zero_panics : lcm 0 0 = None.
Proof. exact lcm_zero_panics. Qed.

(** crt: for reduced residues and positive moduli, the result is the representative in [0, lcm) when the
    congruences are compatible, None otherwise *)
Theorem c11_crt : forall a1 m1 a2 m2 : Z,
  1 <= m1 < 2 ^ 130 -> 1 <= m2 < 2 ^ 130 -> 0 <= a1 < m1 -> 0 <= a2 < m2 ->
  ((Z.gcd m1 m2 | a2 - a1) ->
     exists x, crt a1 m1 a2 m2 = Ret (Some x) /\ 0 <= x < Z.lcm m1 m2 /\ x mod m1 = a1 /\ x mod m2 = a2)
  /\ (~ (Z.gcd m1 m2 | a2 - a1) -> crt a1 m1 a2 m2 = Ret None).
Proof. exact crt_correct. Qed.

(** the representative in [0, lcm) is unique *)
Theorem c11_crt_unique : forall m1 m2 x y : Z, 1 <= m1 -> 1 <= m2 ->
  0 <= x < Z.lcm m1 m2 -> 0 <= y < Z.lcm m1 m2 ->
  x mod m1 = y mod m1 -> x mod m2 = y mod m2 -> x = y.
Proof. exact crt_unique. Qed.

(** on in-scope cases (magnitudes below 2^130), an observation that agrees with the model satisfies the specification:
    the batch lemma about the model carries the spec to the implementation by proof *)
Theorem c11_model_implies_spec : forall c : case, in_scope c -> model_check c = true -> spec_check c = true.
Proof. exact model_implies_spec. Qed.

(** the instrumented variants (C11/Trace.v: same code plus a list of every intermediate value) return the
    model's results: they are the same computation *)
Theorem c11_trace_same : forall a b c a1 m1 a2 m2 : Z,
  fst (gcd_t a b) = gcd a b /\ fst (lcm_t a b) = lcm a b /\
  fst (egcd_t a b c) = egcd a b c /\ fst (crt_t a1 m1 a2 m2) = crt a1 m1 a2 m2.
Proof. exact trace_same. Qed.

(** for operands of magnitude at most 2^20 every intermediate value of gcd, lcm, egcd fits in 63 bits *)
Theorem c11_fits_2_20 : forall a b c : Z, Z.abs a <= 2 ^ 20 -> Z.abs b <= 2 ^ 20 -> Z.abs c <= 2 ^ 20 ->
  Forall (fun v => Z.abs v < 2 ^ 62) (snd (gcd_t a b)) /\
  Forall (fun v => Z.abs v < 2 ^ 62) (snd (lcm_t a b)) /\
  Forall (fun v => Z.abs v < 2 ^ 62) (snd (egcd_t a b c)).
Proof. exact fits_2_20. Qed.

(** the same for crt on moduli up to 2^20 and reduced residues *)
Theorem c11_fits_2_20_crt : forall a1 m1 a2 m2 : Z,
  1 <= m1 <= 2 ^ 20 -> 1 <= m2 <= 2 ^ 20 -> 0 <= a1 < m1 -> 0 <= a2 < m2 ->
  Forall (fun v => Z.abs v < 2 ^ 62) (snd (crt_t a1 m1 a2 m2)).
Proof. exact fits_2_20_crt. Qed.

(** general form: operands bounded by M keep every intermediate below M*M (+ M for crt) *)
Theorem c11_fits_general : forall M a b c : Z, 1 <= M -> Z.abs a <= M -> Z.abs b <= M -> Z.abs c <= M ->
  Forall (fun v => Z.abs v <= M) (snd (gcd_t a b)) /\
  Forall (fun v => Z.abs v <= M * M) (snd (lcm_t a b)) /\
  Forall (fun v => Z.abs v <= M * M) (snd (egcd_t a b c)).
Proof. exact fits_general. Qed.

Theorem c11_fits_general_crt : forall M a1 m1 a2 m2 : Z,
  1 <= m1 <= M -> 1 <= m2 <= M -> 0 <= a1 < m1 -> 0 <= a2 < m2 ->
  Forall (fun v => Z.abs v <= M * M + M) (snd (crt_t a1 m1 a2 m2)).
Proof. exact fits_general_crt. Qed.
