(** C11 — on in-scope cases, agreement with the model implies the specification. *)
From Coq Require Import ZArith List Lia Bool.
From RlibV Require Import Common.Iter Common.Batch C11.Model C11.Corr
  C11.Proofs C11.ProofsEgcd C11.ProofsLcm C11.ProofsCrt.
From RlibV Require Import C11.Trace.
Import ListNotations.
Open Scope Z_scope.

Lemma out_eqb_eq {A} (e : A -> A -> bool) : (forall a b, e a b = true -> a = b) ->
  forall x y, out_eqb e x y = true -> x = y.
Proof.
  intros He [|a] [|b] H; cbn [out_eqb] in H; try discriminate; [reflexivity|].
  f_equal. apply He, H.
Qed.

Lemma oeqb_eq {A} (e : A -> A -> bool) : (forall a b, e a b = true -> a = b) ->
  forall x y, oeqb e x y = true -> x = y.
Proof.
  intros He [a|] [b|] H; cbn [oeqb] in H; try discriminate; [|reflexivity].
  f_equal. apply He, H.
Qed.

Lemma peqb_eq {A B} (ea : A -> A -> bool) (eb : B -> B -> bool) :
  (forall a b, ea a b = true -> a = b) -> (forall a b, eb a b = true -> a = b) ->
  forall x y, peqb ea eb x y = true -> x = y.
Proof.
  intros Ha Hb [x1 x2] [y1 y2] H. unfold peqb in H. cbn [fst snd] in H.
  apply andb_true_iff in H. destruct H as [H1 H2].
  apply Ha in H1. apply Hb in H2. subst. reflexivity.
Qed.

Lemma Zeqb_eq a b : (a =? b) = true -> a = b.
Proof. apply Z.eqb_eq. Qed.

Lemma divides_spec d n : divides d n = true <-> (d | n).
Proof.
  unfold divides. destruct (Z.eqb_spec d 0) as [->|Hd].
  - rewrite Z.eqb_eq. split; [intros ->; apply Z.divide_0_r|apply Z.divide_0_l].
  - rewrite Z.eqb_eq. apply Z.mod_divide. exact Hd.
Qed.

Lemma divides_false d n : divides d n = false <-> ~ (d | n).
Proof.
  rewrite <- divides_spec. destruct (divides d n); split; intros H; try reflexivity;
    try discriminate; try (intros H'; discriminate). exfalso. apply H. reflexivity.
Qed.

Theorem model_implies_spec c : in_scope c -> model_check c = true -> spec_check c = true.
Proof.
  destruct c as [a b r|a b r|a b c r|a1 m1 a2 m2 r]; cbn [in_scope model_check spec_check].
  - intros [_ Hb] Hm. rewrite gcd_correct in Hm by exact Hb. exact Hm.
  - intros [_ Hb] Hm.
    destruct (Z.eqb_spec a 0) as [Ha0|Ha0]; cbn [andb].
    + destruct (Z.eqb_spec b 0) as [Hb0|Hb0]; [reflexivity|].
      rewrite lcm_correct in Hm; [exact Hm| |exact Hb]. intros [= _ H]. contradiction.
    + rewrite lcm_correct in Hm; [exact Hm| |exact Hb]. intros [= H _]. contradiction.
  - intros (Ha & _ & _) Hm.
    assert (Hgoal : (a, b) <> (0, 0) ->
      match r with
      | Panic => false
      | Ret None => negb (divides (Z.gcd a b) c)
      | Ret (Some (x, y)) => divides (Z.gcd a b) c && (a * x + b * y =? c)
      end = true).
    { intros Hne.
      apply (out_eqb_eq _ (oeqb_eq _ (peqb_eq _ _ Zeqb_eq Zeqb_eq))) in Hm. subst r.
      destruct (egcd_complete a b c Hne Ha) as [Hnp Hiff].
      destruct (egcd a b c) as [|[[x y]|]] eqn:He.
      - contradiction.
      - assert (Hd : (Z.gcd a b | c)).
        { destruct (divides (Z.gcd a b) c) eqn:Hdv; [apply divides_spec; exact Hdv|].
          apply divides_false in Hdv. apply Hiff in Hdv. discriminate. }
        apply divides_spec in Hd. rewrite Hd. cbn [andb]. apply Z.eqb_eq.
        apply egcd_sound. exact He.
      - apply negb_true_iff, divides_false, Hiff. reflexivity. }
    destruct (Z.eqb_spec a 0) as [Ha0|Ha0]; cbn [andb].
    + destruct (Z.eqb_spec b 0) as [Hb0|Hb0]; [reflexivity|].
      apply Hgoal. intros [= _ H]. contradiction.
    + apply Hgoal. intros [= H _]. contradiction.
  - intros (_ & Hm1 & _ & Hm2) Hm.
    destruct (negb _) eqn:Hrange; [reflexivity|].
    apply negb_false_iff in Hrange. rewrite !andb_true_iff in Hrange.
    destruct Hrange as (((((H1 & H2) & H3) & H4) & H5) & H6).
    apply Z.leb_le in H1, H2, H3, H5. apply Z.ltb_lt in H4, H6.
    apply (out_eqb_eq _ (oeqb_eq _ Zeqb_eq)) in Hm. subst r.
    destruct (crt_correct a1 m1 a2 m2) as [Hc Hn]; try lia.
    destruct (divides (Z.gcd m1 m2) (a2 - a1)) eqn:Hdv.
    + apply divides_spec in Hdv. destruct (Hc Hdv) as (x & -> & Hx & Hx1 & Hx2).
      cbn [andb]. rewrite !andb_true_iff. repeat split.
      * apply Z.leb_le. lia.
      * apply Z.ltb_lt. lia.
      * apply Z.eqb_eq. exact Hx1.
      * apply Z.eqb_eq. exact Hx2.
    + apply divides_false in Hdv. rewrite (Hn Hdv). reflexivity.
Qed.
