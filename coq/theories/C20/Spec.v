(** C20 — specification-level definitions used in the statements of Properties.v (no proofs). *)
From Coq Require Import List NArith Bool Permutation.
From RlibV Require Import C20.Model.
Import ListNotations.

Definition ret_ty (r : option N) : N := match r with Some x => x | None => unit_ty end.

(** the three lists the final arm works with: the arguments in the order written, and the shared /
    mutable captures in whatever order the munchers accumulated them *)
Definition blk (s : shape) (C M : list var) (a : acc) : list var :=
  match a with AArg => sh_args s | AConst => C | AMut => M end.

(** Positional consistency of a generated item with the invocation shape [s]:
    there are an order of the three lists (a permutation of args / shared / mutable) and orders [C], [M]
    of the shared and of the mutable captures (each capture exactly once) such that
    - the parameters of [fn _lambda_name_] are the three lists in that order, arguments by value,
      shared captures as [&T], mutable captures as [&mut T];
    - the inner macro's call passes the caller's expressions where the arguments are and the captured
      names (plain: they already are references) in the same positions;
    - the closure takes the arguments in the order written and calls [_lambda_name_] with the arguments
      plain, [&c] for shared and [&mut m] for mutable captures, again in the same positions;
    - the first rule of the inner macro forwards the first expression and then the rest (once each). *)
Definition consistent (s : shape) (e : expansion) : Prop :=
  exists (C M : list var) (order : list acc),
    Permutation C (caps_of Shared s) /\ Permutation M (caps_of Mutable s)
    /\ Permutation order [AArg; AConst; AMut]
    /\ e_params e = flat_map (fun a => map (fun v : var => (fst v, snd v, deco_of a)) (blk s C M a)) order
    /\ e_tmpl e = flat_map (fun a => match a with
                                     | AArg => [TIArgs]
                                     | _ => map (fun v : var => TIName (fst v)) (blk s C M a)
                                     end) order
    /\ e_clo_call e = flat_map (fun a => map (fun v : var => (fst v, deco_of a)) (blk s C M a)) order
    /\ e_clo_params e = map (fun v : var => (fst v, snd v, Plain)) (sh_args s)
    /\ e_ruleA e = [FFirst; FRest]
    /\ e_ret e = ret_ty (sh_ret s).

(** the body uses its self-call only through its results *)
Definition body_ext (V : Type)
  (body : selfT V -> list V -> list N -> list N -> store V -> option (V * store V)) : Prop :=
  forall f g : selfT V, (forall syn a st, f syn a st = g syn a st) ->
  forall args shl mul st, body f args shl mul st = body g args shl mul st.
