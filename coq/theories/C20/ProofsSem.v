(** C20 — the expanded closure equals the hand-written recursive function (open-recursion semantics). *)
From Coq Require Import List NArith Bool Arith Lia Permutation.
From RlibV Require Import C20.Model C20.Spec C20.Current C20.Proofs.
Import ListNotations.

(** ** generic list lemmas *)
Lemma combine_app {A B} (l1 l2 : list A) (r1 r2 : list B) :
  length l1 = length r1 -> combine (l1 ++ l2) (r1 ++ r2) = combine l1 r1 ++ combine l2 r2.
Proof.
  revert r1. induction l1 as [|a l1 IH]; intros [|b r1] H; cbn in *; try discriminate; [reflexivity|].
  f_equal. apply IH. lia.
Qed.
Lemma combine_flat_map {X A B} (f : X -> list A) (g : X -> list B) l :
  (forall x, length (f x) = length (g x)) ->
  combine (flat_map f l) (flat_map g l) = flat_map (fun x => combine (f x) (g x)) l.
Proof. intros H. induction l as [|x l IH]; cbn; [reflexivity|]. rewrite combine_app by apply H. now rewrite IH. Qed.
Lemma map_flat_map {X A B} (h : A -> B) (f : X -> list A) l :
  map h (flat_map f l) = flat_map (fun x => map h (f x)) l.
Proof. induction l as [|x l IH]; cbn; [reflexivity|]. now rewrite map_app, IH. Qed.
Lemma forallb2_app {A B} (f : A -> B -> bool) x y x' y' :
  forallb2 f x y = true -> forallb2 f x' y' = true -> forallb2 f (x ++ x') (y ++ y') = true.
Proof.
  revert y. induction x as [|a x IH]; intros [|b y] H H'; cbn in *; try discriminate; auto.
  apply andb_true_iff in H as [H1 H2]. rewrite H1. cbn. auto.
Qed.
Lemma forallb2_length {A B} (f : A -> B -> bool) x y : forallb2 f x y = true -> length x = length y.
Proof.
  revert y. induction x as [|a x IH]; intros [|b y] H; cbn in *; try discriminate; auto.
  apply andb_true_iff in H as [_ H]. f_equal. auto.
Qed.
Lemma forallb2_flat_map {X A B} (p : A -> B -> bool) (f : X -> list A) (g : X -> list B) l :
  (forall x, forallb2 p (f x) (g x) = true) -> forallb2 p (flat_map f l) (flat_map g l) = true.
Proof. intros H. induction l as [|x l IH]; cbn; [reflexivity|]. apply forallb2_app; auto. Qed.
Lemma mapM_app {A B} (f : A -> option B) x y x' y' :
  mapM f x = Some x' -> mapM f y = Some y' -> mapM f (x ++ y) = Some (x' ++ y').
Proof.
  revert x'. induction x as [|a x IH]; intros x' H H'; cbn in *.
  - injection H as <-. exact H'.
  - destruct (f a) as [b|]; [|discriminate]. destruct (mapM f x) as [bs|]; [|discriminate].
    injection H as <-. rewrite (IH bs eq_refl H'). reflexivity.
Qed.
Lemma mapM_flat_map {X A B} (h : A -> option B) (f : X -> list A) (g : X -> list B) l :
  (forall x, In x l -> mapM h (f x) = Some (g x)) -> mapM h (flat_map f l) = Some (flat_map g l).
Proof.
  intros H. induction l as [|x l IH]; cbn; [reflexivity|].
  apply mapM_app; [apply H; now left|]. apply IH. intros y Hy. apply H. now right.
Qed.
Lemma mapM_map_all {A B C} (h : A -> option B) (k : C -> A) (g : C -> B) l :
  (forall c, In c l -> h (k c) = Some (g c)) -> mapM h (map k l) = Some (map g l).
Proof.
  induction l as [|c l IH]; intros H; cbn; [reflexivity|].
  rewrite (H c (or_introl eq_refl)), IH; auto. intros; apply H; now right.
Qed.
Lemma assoc_in {B} (l : list (N * B)) k x : NoDup (map fst l) -> In (k, x) l -> assoc k l = Some x.
Proof.
  induction l as [|[k' b] l IH]; cbn; intros ND H; [contradiction|].
  inversion ND as [|? ? Hn ND']; subst.
  destruct H as [H|H].
  - injection H as -> ->. now rewrite N.eqb_refl.
  - destruct (N.eqb_spec k k') as [->|_]; [|auto].
    exfalso. apply Hn. change k' with (fst (k', x)). now apply in_map.
Qed.
Lemma flat_map_flat_map {X A B} (g : A -> list B) (f : X -> list A) l :
  flat_map g (flat_map f l) = flat_map (fun x => flat_map g (f x)) l.
Proof. induction l as [|x l IH]; cbn; [reflexivity|]. now rewrite flat_map_app, IH. Qed.

Lemma combine_map_same {X A B} (f : X -> A) (g : X -> B) l :
  combine (map f l) (map g l) = map (fun x => (f x, g x)) l.
Proof. induction l as [|x l IH]; cbn; [reflexivity|]. now rewrite IH. Qed.

Lemma vars_partition cs : Permutation (vars_of Shared cs ++ vars_of Mutable cs) (map cap_var cs).
Proof.
  induction cs as [|[k v] cs IH]; [reflexivity|].
  rewrite (vars_of_cons Shared), (vars_of_cons Mutable). destruct k; cbn.
  - now apply perm_skip.
  - symmetry. apply Permutation_cons_app. now symmetry.
Qed.

Lemma tc_shared V (l : list var) :
  forallb2 (bind_ok V) (map (fun v : var => (fst v, snd v, Ref)) l) (map (fun v : var => ARefS (fst v)) l) = true.
Proof. induction l as [|c l IH]; cbn; auto. Qed.
Lemma tc_mut V (l : list var) :
  forallb2 (bind_ok V) (map (fun v : var => (fst v, snd v, RefMut)) l) (map (fun v : var => ARefM (fst v)) l) = true.
Proof. induction l as [|c l IH]; cbn; auto. Qed.
Lemma tc_args V (l : list var) (args : list V) : length args = length l ->
  forallb2 (bind_ok V) (map (fun v : var => (fst v, snd v, Plain)) l) (map AV args) = true.
Proof. revert args. induction l as [|v l IH]; intros [|x args] H; cbn in *; try discriminate; auto. Qed.

Lemma mapM_get_val V env (names : list N) (vals : list V) : length vals = length names ->
  (forall k v, In (k, AV v) (combine names (map AV vals)) -> get_val V env k = Some v) ->
  mapM (get_val V env) names = Some vals.
Proof.
  revert vals. induction names as [|k names IH]; intros [|x vals] H K; cbn in *; try discriminate; [reflexivity|].
  rewrite (K k x) by now left. rewrite (IH vals); auto.
Qed.
Lemma mapM_same {A} (f : A -> option A) l : (forall x, In x l -> f x = Some x) -> mapM f l = Some l.
Proof.
  induction l as [|x l IH]; intros H; cbn; [reflexivity|].
  rewrite (H x) by now left. rewrite IH; auto. intros; apply H; now right.
Qed.
Lemma mapM_map {A B C} (f : B -> option C) (k : A -> B) l : mapM f (map k l) = mapM (fun x => f (k x)) l.
Proof. induction l as [|x l IH]; cbn; [reflexivity|]. now rewrite IH. Qed.
Lemma map_fst_combine {A B} (l : list A) (r : list B) : length l = length r -> map fst (combine l r) = l.
Proof. revert r. induction l as [|a l IH]; intros [|b r] H; cbn in *; try discriminate; [reflexivity|]. f_equal. apply IH. lia. Qed.
Lemma mapM_assoc_combine {B C} (g : B -> C) (env : list (N * B)) (names : list N) (vals : list B) :
  length vals = length names -> NoDup (map fst env) -> incl (combine names vals) env ->
  mapM (fun k => option_map g (assoc k env)) names = Some (map g vals).
Proof.
  intros H ND. revert vals H. induction names as [|k names IH]; intros [|x vals] H I; cbn in *; try discriminate; [reflexivity|].
  rewrite (assoc_in env k x ND) by (apply I; now left). cbn.
  rewrite (IH vals); auto. intros y Hy. apply I. now right.
Qed.
Lemma NoDup_app_l {A} (l r : list A) : NoDup (l ++ r) -> NoDup l.
Proof.
  induction l as [|a l IH]; cbn; intros H; [constructor|].
  inversion H as [|? ? Hn H']; subst. constructor; [|auto]. intros Hin. apply Hn. apply in_or_app. now left.
Qed.
Lemma flat_map_single {A B X} (g : B -> list X) (k : A -> B) (h : A -> X) l :
  (forall a, g (k a) = [h a]) -> flat_map g (map k l) = map h l.
Proof. intros H. induction l as [|a l IH]; cbn; [reflexivity|]. now rewrite H, IH. Qed.

(** ** the expanded closure is the hand-written recursive function *)
Section SemProof.
Variable V : Type.
Variable body : selfT V -> list V -> list N -> list N -> store V -> option (V * store V).
Variable s : shape.
Variable e : expansion.
Variables (C M : list var) (order : list acc).
Hypothesis HC : Permutation C (caps_of Shared s).
Hypothesis HM : Permutation M (caps_of Mutable s).
Hypothesis Hord : Permutation order [AArg; AConst; AMut].
Hypothesis Hpar : e_params e = flat_map (fun a => map (fun v : var => (fst v, snd v, deco_of a)) (blk s C M a)) order.
Hypothesis Htmpl : e_tmpl e = flat_map (fun a => match a with
                                     | AArg => [TIArgs]
                                     | _ => map (fun v : var => TIName (fst v)) (blk s C M a)
                                     end) order.
Hypothesis Hcall : e_clo_call e = flat_map (fun a => map (fun v : var => (fst v, deco_of a)) (blk s C M a)) order.
Hypothesis Hcp : e_clo_params e = map (fun v : var => (fst v, snd v, Plain)) (sh_args s).
Hypothesis HA : e_ruleA e = [FFirst; FRest].
Hypothesis Hnd : NoDup (all_names s).
Hypothesis Hext : body_ext V body.

Definition bacts (args : list V) (a : acc) : list (aval V) :=
  match a with
  | AArg => map AV args
  | AConst => map (fun v : var => ARefS (fst v)) C
  | AMut => map (fun v : var => ARefM (fst v)) M
  end.
Definition acts_of (args : list V) : list (aval V) := flat_map (bacts args) order.
Definition benv (args : list V) (a : acc) : list (N * aval V) := combine (map fst (blk s C M a)) (bacts args a).

Lemma in_order a : In a order.
Proof. apply (Permutation_in _ (Permutation_sym Hord)). destruct a; cbn; auto. Qed.

Lemma blen args a : length args = length (sh_args s) -> length (map fst (blk s C M a)) = length (bacts args a).
Proof. intros H. destruct a; cbn; rewrite !map_length; auto. Qed.

Lemma pnames : map pname (e_params e) = flat_map (fun a => map fst (blk s C M a)) order.
Proof.
  rewrite Hpar, map_flat_map. apply flat_map_ext. intros a. rewrite map_map. reflexivity.
Qed.

Lemma env_eq args : length args = length (sh_args s) ->
  combine (map pname (e_params e)) (acts_of args) = flat_map (benv args) order.
Proof. intros H. rewrite pnames. unfold acts_of. apply combine_flat_map. intros a. now apply blen. Qed.

Lemma names_perm : Permutation (flat_map (fun a => map fst (blk s C M a)) order) (all_names s).
Proof.
  rewrite (@Permutation_flat_map _ _ (fun a => map fst (blk s C M a)) _ _ Hord). cbn. rewrite app_nil_r. unfold all_names, arg_names.
  apply Permutation_app_head.
  rewrite <- map_app, <- (map_map cap_var fst). apply Permutation_map.
  rewrite HC, HM. apply vars_partition.
Qed.

Lemma env_keys args : length args = length (sh_args s) -> NoDup (map fst (flat_map (benv args) order)).
Proof.
  intros H. rewrite map_flat_map.
  rewrite (flat_map_ext _ (fun a => map fst (blk s C M a))).
  - apply (Permutation_NoDup (Permutation_sym names_perm) Hnd).
  - intros a. unfold benv.
    assert (L := blen args a H). revert L. generalize (map fst (blk s C M a)) (bacts args a).
    intros l. induction l as [|x l IH]; intros [|y r] L; cbn in *; try discriminate; [reflexivity|].
    f_equal. apply IH. lia.
Qed.

Lemma env_in args a x : In x (benv args a) -> In x (flat_map (benv args) order).
Proof. intros H. apply in_flat_map. exists a. split; [apply in_order|exact H]. Qed.

Lemma assoc_shared args v : length args = length (sh_args s) -> In v C ->
  assoc (fst v) (flat_map (benv args) order) = Some (ARefS (fst v)).
Proof.
  intros H Hv. apply assoc_in; [now apply env_keys|]. apply (env_in args AConst).
  unfold benv. cbn. rewrite combine_map_same.
  apply (in_map (fun x : var => (fst x, ARefS (V:=V) (fst x)))). exact Hv.
Qed.
Lemma assoc_mut args v : length args = length (sh_args s) -> In v M ->
  assoc (fst v) (flat_map (benv args) order) = Some (ARefM (fst v)).
Proof.
  intros H Hv. apply assoc_in; [now apply env_keys|]. apply (env_in args AMut).
  unfold benv. cbn. rewrite combine_map_same.
  apply (in_map (fun x : var => (fst x, ARefM (V:=V) (fst x)))). exact Hv.
Qed.

Lemma typecheck args : length args = length (sh_args s) -> forallb2 (bind_ok V) (e_params e) (acts_of args) = true.
Proof.
  intros H. rewrite Hpar. unfold acts_of. apply forallb2_flat_map. intros a. destruct a; cbn.
  - apply tc_shared. - apply tc_mut. - now apply tc_args.
Qed.

Lemma lengths args : length (acts_of args) + length (sh_args s) = length (e_params e) + length args.
Proof.
  unfold acts_of. rewrite Hpar.
  rewrite (Permutation_length (@Permutation_flat_map _ _ (bacts args) _ _ Hord)).
  rewrite (Permutation_length (@Permutation_flat_map _ _ (fun a => map (fun v : var => (fst v, snd v, deco_of a)) (blk s C M a)) _ _ Hord)).
  cbn. rewrite !app_length, !map_length. cbn. lia.
Qed.

Lemma typecheck_fail args : length args <> length (sh_args s) -> forallb2 (bind_ok V) (e_params e) (acts_of args) = false.
Proof.
  intros H. destruct (forallb2 (bind_ok V) (e_params e) (acts_of args)) eqn:E; [|reflexivity].
  apply forallb2_length in E. pose proof (lengths args). lia.
Qed.

Lemma look_args args : length args = length (sh_args s) ->
  mapM (get_val V (flat_map (benv args) order)) (arg_names s) = Some args.
Proof.
  intros H. apply mapM_get_val; [unfold arg_names; now rewrite map_length|].
  intros k v Hin. unfold get_val. rewrite (assoc_in _ k (AV v)); [reflexivity|now apply env_keys|].
  apply (env_in args AArg). exact Hin.
Qed.
Lemma look_shared args : length args = length (sh_args s) ->
  mapM (get_refS V (flat_map (benv args) order)) (shared_names s) = Some (shared_names s).
Proof.
  intros H. apply mapM_same. intros c Hc. unfold shared_names in Hc. apply in_map_iff in Hc as (v & <- & Hv).
  unfold get_refS. rewrite assoc_shared; auto. apply (Permutation_in _ (Permutation_sym HC) Hv).
Qed.
Lemma look_mut args : length args = length (sh_args s) ->
  mapM (get_refM V (flat_map (benv args) order)) (mut_names s) = Some (mut_names s).
Proof.
  intros H. apply mapM_same. intros c Hc. unfold mut_names in Hc. apply in_map_iff in Hc as (v & <- & Hv).
  unfold get_refM. rewrite assoc_mut; auto. apply (Permutation_in _ (Permutation_sym HM) Hv).
Qed.

Lemma call_syn_trailing syn (es : list (V + N)) : call_syn syn e es = call_trailing e es.
Proof.
  destruct syn; [reflexivity|]. unfold call_syn, call_plain. destruct es as [|x r]; [reflexivity|].
  rewrite HA. cbn. now rewrite app_nil_r.
Qed.

Lemma eval_call args args' syn : length args = length (sh_args s) ->
  mapM (eval_item V (flat_map (benv args) order)) (call_syn syn e (map inl args')) = Some (acts_of args').
Proof.
  intros H. rewrite call_syn_trailing. unfold call_trailing. rewrite Htmpl, flat_map_flat_map.
  unfold acts_of. apply mapM_flat_map. intros a _. destruct a; cbn [bacts blk].
  - rewrite (flat_map_single _ _ (fun v : var => inr (fst v))) by reflexivity.
    apply mapM_map_all. intros v Hv. cbn. now apply assoc_shared.
  - rewrite (flat_map_single _ _ (fun v : var => inr (fst v))) by reflexivity.
    apply mapM_map_all. intros v Hv. cbn. now apply assoc_mut.
  - cbn. rewrite app_nil_r. apply mapM_map_all. reflexivity.
Qed.

Lemma inner_hand n : forall syn args st, inner V body s e n (acts_of args) st = hand V body s n syn args st.
Proof.
  induction n as [|n IH]; intros syn args st; [reflexivity|].
  cbn [inner hand]. cbv zeta.
  destruct (Nat.eqb_spec (length args) (length (sh_args s))) as [L|L].
  - rewrite typecheck, env_eq, look_args, look_shared, look_mut by assumption.
    apply Hext. intros syn' a' st'. rewrite eval_call by assumption. apply IH.
  - now rewrite typecheck_fail.
Qed.

Lemma hand_arity n syn args st : length args <> length (sh_args s) -> hand V body s n syn args st = None.
Proof. intros H. destruct n; cbn; [reflexivity|]. destruct (Nat.eqb_spec (length args) (length (sh_args s))); congruence. Qed.

Lemma closure_hand n syn args st : closure V body s e n args st = hand V body s n syn args st.
Proof.
  unfold closure. rewrite Hcp, map_length.
  destruct (Nat.eqb_spec (length args) (length (sh_args s))) as [L|L]; [|now rewrite hand_arity].
  assert (E : mapM (fun nd : N * deco =>
                      match snd nd with
                      | Plain => option_map AV (assoc (fst nd)
                                   (combine (map pname (map (fun v : var => (fst v, snd v, Plain)) (sh_args s))) args))
                      | Ref => Some (ARefS (fst nd))
                      | RefMut => Some (ARefM (fst nd))
                      end) (e_clo_call e) = Some (acts_of args)).
  { rewrite Hcall. unfold acts_of. apply mapM_flat_map. intros a _. destruct a; cbn [bacts blk deco_of].
    - apply mapM_map_all. reflexivity.
    - apply mapM_map_all. reflexivity.
    - rewrite map_map. cbn [pname fst]. rewrite mapM_map. cbn [fst snd].
      transitivity (mapM (fun k => option_map (AV (V:=V)) (assoc k (combine (map (fun x : var => fst x) (sh_args s)) args)))
                         (map fst (sh_args s))); [now rewrite mapM_map|].
      apply mapM_assoc_combine.
      + now rewrite map_length.
      + rewrite map_fst_combine by now rewrite map_length.
        apply (NoDup_app_l _ _ Hnd).
      + apply incl_refl. }
  rewrite E. apply inner_hand.
Qed.
End SemProof.

Theorem semantics V body s e : consistent s e -> NoDup (all_names s) -> body_ext V body ->
  forall n syn args st, closure V body s e n args st = hand V body s n syn args st.
Proof.
  intros (C & M & order & HC & HM & Hord & Hpar & Htmpl & Hcall & Hcp & HA & _) Hnd Hext n syn args st.
  eapply closure_hand; eauto.
Qed.

Lemma call_syntaxes_agree_wf (ms : macros) (s : shape) (e : expansion) (X : Type) (es : list (X + N)) :
  well_formed ms = true -> sh_args s <> [] -> expand ms s = Some e -> call_plain e es = call_trailing e es.
Proof.
  intros W Ha He. destruct (expand_consistent ms s W Ha) as (e' & He' & Hc).
  rewrite He in He'. injection He' as <-. now apply (call_syntaxes_agree s).
Qed.

Lemma semantics_wf (ms : macros) (s : shape) (e : expansion) :
  well_formed ms = true -> sh_args s <> [] -> expand ms s = Some e -> NoDup (all_names s) ->
  forall (V : Type) (body : selfT V -> list V -> list N -> list N -> store V -> option (V * store V)),
  body_ext V body ->
  forall (n : nat) (syn : bool) (args : list V) (st : store V),
  closure V body s e n args st = hand V body s n syn args st.
Proof.
  intros W Ha He Hnd V body Hext. destruct (expand_consistent ms s W Ha) as (e' & He' & Hc).
  rewrite He in He'. injection He' as <-. now apply semantics.
Qed.

Lemma correct_of_wf (ms : macros) : well_formed ms = true ->
  forall s : shape, sh_args s <> [] -> NoDup (all_names s) ->
  exists e, expand ms s = Some e /\ consistent s e
            /\ (forall (X : Type) (es : list (X + N)), call_plain e es = call_trailing e es)
            /\ forall (V : Type) (body : selfT V -> list V -> list N -> list N -> store V -> option (V * store V)),
               body_ext V body ->
               forall (n : nat) (syn : bool) (args : list V) (st : store V),
               closure V body s e n args st = hand V body s n syn args st.
Proof.
  intros W s Ha Hnd. destruct (expand_consistent ms s W Ha) as (e & He & Hc).
  exists e. repeat split; auto.
  - intros X es. now apply (call_syntaxes_agree s).
  - intros V body Hext. now apply semantics.
Qed.

Lemma rustc_partial (ms : macros) (s : shape) : well_formed ms = true -> sh_args s <> [] -> NoDup (all_names s) ->
  exists e, expand ms s = Some e
            /\ forall (V : Type) (body : selfT V -> list V -> list N -> list N -> store V -> option (V * store V)),
               body_ext V body ->
               forall (n : nat) (syn : bool) (args : list V) (st : store V),
               closure V body s e n args st = hand V body s n syn args st.
Proof.
  intros W Ha Hnd. destruct (correct_of_wf ms W s Ha Hnd) as (e & He & _ & _ & H). eauto.
Qed.

(** ** the current macros splice at the front: the capture lists come out reversed *)
Lemma munch_caps_current : forall cs A t, cs <> [] ->
  munch current_macros M0 A (cap_heads cs ++ t)
  = munch current_macros M1 (mkAccs (rev (vars_of Shared cs) ++ a_const A) (rev (vars_of Mutable cs) ++ a_mut A) (a_arg A)) t.
Proof.
  induction cs as [|c cs IH]; intros A t Hne; [congruence|].
  destruct c as [k v]. destruct cs as [|c' cs'].
  - destruct A as [Ac Am Aa]. destruct k; cbn; unfold apply_rule, interp; cbn; rewrite ?app_nil_r; reflexivity.
  - change (cap_heads (mkCap k v :: c' :: cs')) with (HCapComma k v :: cap_heads (c' :: cs')).
    rewrite <- app_comm_cons, munch_cons.
    rewrite (vars_of_cons Shared (mkCap k v)), (vars_of_cons Mutable (mkCap k v)).
    destruct A as [Ac Am Aa].
    destruct k; cbn [find_rule rules_of current_macros m_m0 find r_pat pat_of pat_eqb kind_eqb r_next var_of];
      rewrite IH by discriminate; unfold apply_rule, interp; cbn; rewrite ?app_nil_r, <- ?app_assoc; reflexivity.
Qed.

Lemma current_order (s : shape) : sh_args s <> [] ->
  expand current_macros s
  = Some (emit (m_final current_macros)
               (mkAccs (rev (caps_of Shared s)) (rev (caps_of Mutable s)) (sh_args s)) (ret_ty (sh_ret s))).
Proof.
  intros Ha. pose proof (well_formed_wf _ current_well_formed) as W.
  unfold expand, input_of, entry_pat, caps_of. destruct (sh_caps s) as [|c cs] eqn:E.
  - cbn [m_entry current_macros find fst epat_eqb cap_heads app]. rewrite munch_args by assumption. reflexivity.
  - cbn [m_entry current_macros find fst epat_eqb]. rewrite munch_caps_current by discriminate.
    rewrite munch_args by assumption. cbn [a_const a_mut a_arg empty_accs app]. rewrite !app_nil_r. reflexivity.
Qed.
