(** C20 — correspondence cases.

    One case = one invocation shape of [rec_lambda!] together with what the real tool chain did
    with it:
      * the REAL expansion (rustc -Zunpretty=expanded): parameter list of [fn _lambda_name_],
        the two transcribers of the inner macro, the closure's parameters and call, and every
        expanded recursive call found in the body;
      * whether the generated program compiled (stable rustc), and what the closure built by the
        macro / the hand-written recursive function printed (results, final captured state).

    [model_check_with ms]: the model's [expand ms shape] predicts the real expansion exactly
    ([ms] = the macro description translated from the source on this run).
    [spec_check]: the property itself, independent of the model: compiles, same results, same
    final captured state. *)
From Coq Require Import List NArith ZArith Bool.
From RlibV Require Import C20.Model.
Import ListNotations.

(** observed expansion: the generated item and the actual arguments of each expanded recursive
    call ([inl i] = the i-th expression written in the call, [inr n] = captured name [n]) *)
Inductive case :=
| Case (s : shape) (trailing : bool) (x : option (expansion * list (list (N + N))))
       (compiled : bool) (run_macro run_hand : list Z).

Definition p3_eqb (a b : N * N * deco) : bool :=
  N.eqb (fst (fst a)) (fst (fst b)) && N.eqb (snd (fst a)) (snd (fst b)) && deco_eqb (snd a) (snd b).
Definition p2_eqb (a b : N * deco) : bool := N.eqb (fst a) (fst b) && deco_eqb (snd a) (snd b).
Definition titem_eqb (a b : titem) : bool :=
  match a, b with TIArgs, TIArgs => true | TIName x, TIName y => N.eqb x y | _, _ => false end.
Definition item_eqb (a b : N + N) : bool :=
  match a, b with inl x, inl y | inr x, inr y => N.eqb x y | _, _ => false end.
Definition exp_eqb (a b : expansion) : bool :=
  list_eqb p3_eqb (e_params a) (e_params b) && N.eqb (e_ret a) (e_ret b)
  && list_eqb fpiece_eqb (e_ruleA a) (e_ruleA b) && list_eqb titem_eqb (e_tmpl a) (e_tmpl b)
  && list_eqb p3_eqb (e_clo_params a) (e_clo_params b) && list_eqb p2_eqb (e_clo_call a) (e_clo_call b).

Fixpoint iota (k : nat) (from : N) : list N :=
  match k with O => [] | S k' => from :: iota k' (N.succ from) end.
(** the call the model predicts for [f!(e0, .., e(k-1))] written with the given syntax *)
Definition predicted_call (e : expansion) (trailing : bool) (k : nat) : list (N + N) :=
  call_syn trailing e (map inl (iota k 0%N)).

Definition model_check_with (ms : macros) (c : case) : bool :=
  match c with
  | Case s trailing x compiled _ _ =>
      match expand ms s with
      | Some e =>
          match x with
          | Some (e', calls) =>
              compiled && exp_eqb e e'
              && forallb (fun c => list_eqb item_eqb c (predicted_call e trailing (length (sh_args s)))) calls
          | None => false
          end
      | None => negb compiled && match x with None => true | Some _ => false end
      end
  end.

Definition spec_check (c : case) : bool :=
  match c with
  | Case _ _ _ compiled rm rh => compiled && list_eqb Z.eqb rm rh
  end.

(** for replay files: what the model predicts *)
Definition explain_with (ms : macros) (c : case) : option (expansion * list (N + N)) :=
  match c with
  | Case s trailing _ _ _ _ =>
      match expand ms s with
      | Some e => Some (e, predicted_call e trailing (length (sh_args s)))
      | None => None
      end
  end.
