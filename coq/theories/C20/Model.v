(** C20 — [rec_lambda!]: a token-level model of the three [macro_rules!] munchers
    (rlib/lambda/src/lib.rs) and of the item they generate.

    Executable definitions only.  Nothing here is specific to the macros as they are
    written today: a macro set is a VALUE of type [macros] (an ordered list of rules per
    muncher, first matching rule wins, plus a description of what the final arm emits).
    The value describing the current source is produced by the translator in
    checks/c20.py on every run (snapshot: Current.v).

    NOT modelled (covered only by the compile-and-run battery): rustc's parsing of the
    [ty]/[expr] fragments, hygiene, name resolution, type and borrow checking. *)
From Coq Require Import List NArith Bool Arith.
Import ListNotations.

(** * Invocation shapes *)
Inductive kind := Shared | Mutable.              (* [name: &T]  /  [name: &mut T] *)
Definition var := (N * N)%type.                  (* identifier, type (both abstract ids) *)
Record capture := mkCap { cap_kind : kind; cap_var : var }.
(** [rec_lambda!(f, |captures| { |args| [-> ret] { body } })] *)
Record shape := mkShape { sh_caps : list capture; sh_args : list var; sh_ret : option N }.

Definition unit_ty : N := 0%N.                   (* the type [()] *)

(** What a muncher sees at the head of the remaining input. *)
Inductive head :=
| HCapComma (k : kind) (v : var)                 (* [v: &[mut] T ,]      more captures follow *)
| HCapLast (k : kind) (v : var)                  (* [v: &[mut] T | {|]   the last capture     *)
| HArgComma (v : var)                            (* [v: T ,]             more arguments follow *)
| HArgLast (v : var) (ret : option N).           (* [v: T | -> R {body}] or [v: T | {body}]    *)

Fixpoint cap_heads (cs : list capture) : list head :=
  match cs with
  | [] => []
  | c :: cs' =>
      match cs' with
      | [] => [HCapLast (cap_kind c) (cap_var c)]
      | _ :: _ => HCapComma (cap_kind c) (cap_var c) :: cap_heads cs'
      end
  end.
Fixpoint arg_heads (ret : option N) (l : list var) : list head :=
  match l with
  | [] => []
  | v :: l' =>
      match l' with
      | [] => [HArgLast v ret]
      | _ :: _ => HArgComma v :: arg_heads ret l'
      end
  end.
Definition input_of (s : shape) : list head := cap_heads (sh_caps s) ++ arg_heads (sh_ret s) (sh_args s).

(** * Macro descriptions *)
(** what the matcher of a rule accepts after the three accumulator lists *)
Inductive pat :=
| PCapComma (k : kind)        (* [$var:ident : & [mut] $var_type:ty , $($rem:tt)*]      *)
| PCapLast (k : kind)         (* [$var:ident : & [mut] $var_type:ty | {| $($rem:tt)* }] *)
| PArgComma                   (* [$var:ident : $var_type:ty , $($rem:tt)*]              *)
| PArgLast (with_ret : bool). (* [$var:ident : $var_type:ty | [-> $ret:ty] { $($rem:tt)* }] *)

Inductive acc := AConst | AMut | AArg.           (* the three accumulator lists, by position *)
(** one piece of an accumulator list in a transcriber:
    [$var:$var_type,]  or  [$($x_name:$x_type,)*] for the matched list [x] *)
Inductive piece := PVar | PAcc (a : acc).
Inductive mname := M0 | M1.                      (* [_rec_lambda_0_], [_rec_lambda_1_] *)
Inductive ret_src := RetMatched | RetUnit.       (* [$ret] / [()] *)
Inductive target := ToMuncher (m : mname) | ToFinal (r : ret_src).
Record rule := mkRule { r_pat : pat; r_const : list piece; r_mut : list piece; r_arg : list piece;
                        r_next : target }.

Inductive deco := Plain | Ref | RefMut.          (* [x] / [&x] / [&mut x]   (resp. in types) *)
(** [$($n : DECO $t,)*] over one accumulator / [$(DECO $n,)*] over one accumulator *)
Record seg := mkSeg { seg_acc : acc; seg_deco : deco }.
Inductive tpiece := TCallArgs | TList (a : acc). (* [$($x,)*] of the inner macro / [$($n,)*] *)
Inductive fpiece := FFirst | FRest.              (* [$xf,] / [$($x,)*] in the inner macro's first rule *)
(** the only arm of [_rec_lambda_2_]:
    [fn _lambda_name_(f_params) -> $ret { macro_rules! $name { ($xf:expr $(,$x:expr)* ) => { $name!(f_ruleA) };
       ($($x:expr,)* ) => { _lambda_name_(f_ruleB) } }  body }   |f_clo_params| { _lambda_name_(f_clo_call) }] *)
Record final := mkFinal { f_params : list seg; f_ruleA : list fpiece; f_ruleB : list tpiece;
                          f_clo_params : list seg; f_clo_call : list seg }.

Inductive epat := ENoCaps | ECaps.               (* [$name, || {| rem}]  /  [$name, | rem] *)
Record macros := mkMacros { m_entry : list (epat * mname); m_m0 : list rule; m_m1 : list rule;
                            m_final : final }.

(** * Decidable equalities *)
Definition kind_eqb (a b : kind) := match a, b with Shared, Shared | Mutable, Mutable => true | _, _ => false end.
Definition pat_eqb (a b : pat) :=
  match a, b with
  | PCapComma k, PCapComma k' | PCapLast k, PCapLast k' => kind_eqb k k'
  | PArgComma, PArgComma => true
  | PArgLast x, PArgLast y => Bool.eqb x y
  | _, _ => false
  end.
Definition acc_eqb (a b : acc) :=
  match a, b with AConst, AConst | AMut, AMut | AArg, AArg => true | _, _ => false end.
Definition piece_eqb (a b : piece) :=
  match a, b with PVar, PVar => true | PAcc x, PAcc y => acc_eqb x y | _, _ => false end.
Definition mname_eqb (a b : mname) := match a, b with M0, M0 | M1, M1 => true | _, _ => false end.
Definition ret_src_eqb (a b : ret_src) :=
  match a, b with RetMatched, RetMatched | RetUnit, RetUnit => true | _, _ => false end.
Definition target_eqb (a b : target) :=
  match a, b with
  | ToMuncher x, ToMuncher y => mname_eqb x y
  | ToFinal x, ToFinal y => ret_src_eqb x y
  | _, _ => false
  end.
Definition deco_eqb (a b : deco) :=
  match a, b with Plain, Plain | Ref, Ref | RefMut, RefMut => true | _, _ => false end.
Definition epat_eqb (a b : epat) := match a, b with ENoCaps, ENoCaps | ECaps, ECaps => true | _, _ => false end.
Definition fpiece_eqb (a b : fpiece) := match a, b with FFirst, FFirst | FRest, FRest => true | _, _ => false end.
Definition tpiece_eqb (a b : tpiece) :=
  match a, b with TCallArgs, TCallArgs => true | TList x, TList y => acc_eqb x y | _, _ => false end.
Fixpoint list_eqb {A} (e : A -> A -> bool) (x y : list A) : bool :=
  match x, y with
  | [], [] => true
  | a :: x', b :: y' => e a b && list_eqb e x' y'
  | _, _ => false
  end.

(** * Running the munchers *)
Record accs := mkAccs { a_const : list var; a_mut : list var; a_arg : list var }.
Definition get (A : accs) (a : acc) : list var :=
  match a with AConst => a_const A | AMut => a_mut A | AArg => a_arg A end.
Definition interp (A : accs) (v : var) (ps : list piece) : list var :=
  flat_map (fun p => match p with PVar => [v] | PAcc a => get A a end) ps.
Definition apply_rule (r : rule) (A : accs) (v : var) : accs :=
  mkAccs (interp A v (r_const r)) (interp A v (r_mut r)) (interp A v (r_arg r)).

(** the class of a head = the one pattern that accepts it ([&mut T] is not accepted by [& $t:ty]:
    [mut] cannot begin a type, so that arm simply does not match; observed with rustc) *)
Definition pat_of (h : head) : pat :=
  match h with
  | HCapComma k _ => PCapComma k
  | HCapLast k _ => PCapLast k
  | HArgComma _ => PArgComma
  | HArgLast _ r => PArgLast (match r with Some _ => true | None => false end)
  end.
Definition var_of (h : head) : var :=
  match h with HCapComma _ v | HCapLast _ v | HArgComma v | HArgLast v _ => v end.
(** first matching rule wins *)
Definition find_rule (rs : list rule) (h : head) : option rule :=
  find (fun r => pat_eqb (r_pat r) (pat_of h)) rs.
Definition rules_of (ms : macros) (m : mname) : list rule := match m with M0 => m_m0 ms | M1 => m_m1 ms end.

(** * The generated item *)
Inductive titem := TIArgs | TIName (n : N).      (* [$($x,)*] / a captured name *)
Record expansion := mkExp {
  e_params : list (N * N * deco);                (* parameters of [fn _lambda_name_]: name, type, reference kind *)
  e_ret : N;                                     (* its return type *)
  e_ruleA : list fpiece;                         (* inner macro, rule 1: [$name!(...)] *)
  e_tmpl : list titem;                           (* inner macro, rule 2: [_lambda_name_(...)] *)
  e_clo_params : list (N * N * deco);            (* the closure's parameters *)
  e_clo_call : list (N * deco)                   (* the closure's call of [_lambda_name_] *)
}.

Definition emit_params (A : accs) (l : list seg) : list (N * N * deco) :=
  flat_map (fun s => map (fun v : var => (fst v, snd v, seg_deco s)) (get A (seg_acc s))) l.
Definition emit_call (A : accs) (l : list seg) : list (N * deco) :=
  flat_map (fun s => map (fun v : var => (fst v, seg_deco s)) (get A (seg_acc s))) l.
Definition emit_tmpl (A : accs) (l : list tpiece) : list titem :=
  flat_map (fun t => match t with TCallArgs => [TIArgs] | TList a => map (fun v : var => TIName (fst v)) (get A a) end) l.
Definition emit (f : final) (A : accs) (ret : N) : expansion :=
  mkExp (emit_params A (f_params f)) ret (f_ruleA f) (emit_tmpl A (f_ruleB f))
        (emit_params A (f_clo_params f)) (emit_call A (f_clo_call f)).

Definition ret_of (rs : ret_src) (h : head) : N :=
  match rs with
  | RetUnit => unit_ty
  | RetMatched => match h with HArgLast _ (Some r) => r | _ => unit_ty end
  end.

(** structural recursion on the remaining input: every rule consumes exactly one head *)
Fixpoint munch (ms : macros) (m : mname) (A : accs) (inp : list head) : option expansion :=
  match inp with
  | [] => None                                   (* no arm accepts an empty remainder *)
  | h :: t =>
      match find_rule (rules_of ms m) h with
      | None => None                             (* "no rules expected this token" *)
      | Some r =>
          let A' := apply_rule r A (var_of h) in
          match r_next r with
          | ToMuncher m' => munch ms m' A' t
          | ToFinal rs => match t with [] => Some (emit (m_final ms) A' (ret_of rs h)) | _ :: _ => None end
          end
      end
  end.

Definition empty_accs : accs := mkAccs [] [] [].
Definition entry_pat (s : shape) : epat := match sh_caps s with [] => ENoCaps | _ :: _ => ECaps end.
Definition expand (ms : macros) (s : shape) : option expansion :=
  match find (fun e => epat_eqb (fst e) (entry_pat s)) (m_entry ms) with
  | Some (_, m) => munch ms m empty_accs (input_of s)
  | None => None
  end.

(** * Recursive calls through the inner macro *)
(** actual arguments of a generated call of [_lambda_name_]: an expression written by the
    caller ([X]) or a captured name *)
Section Calls.
Context {X : Type}.
Definition call_trailing (e : expansion) (es : list (X + N)) : list (X + N) :=   (* [f!(e1, .., ek,)] *)
  flat_map (fun t => match t with TIArgs => es | TIName n => [inr n] end) (e_tmpl e).
Definition call_plain (e : expansion) (es : list (X + N)) : list (X + N) :=      (* [f!(e1, .., ek)] *)
  match es with
  | [] => call_trailing e []
  | x :: r => call_trailing e (flat_map (fun p => match p with FFirst => [x] | FRest => r end) (e_ruleA e))
  end.
Definition call_syn (trailing : bool) := if trailing then call_trailing else call_plain.
End Calls.

(** * Well-formed macro sets (decidable) *)
Definition pieces_eqb := list_eqb piece_eqb.
Definition splice_ok (a : acc) (ps : list piece) : bool :=
  pieces_eqb ps [PVar; PAcc a] || pieces_eqb ps [PAcc a; PVar].
Definition keeps (a : acc) (ps : list piece) : bool := pieces_eqb ps [PAcc a].

Definition good_cap_rule (k : kind) (last : bool) (r : rule) : bool :=
  target_eqb (r_next r) (ToMuncher (if last then M1 else M0))
  && keeps AArg (r_arg r)
  && match k with
     | Shared => splice_ok AConst (r_const r) && keeps AMut (r_mut r)
     | Mutable => keeps AConst (r_const r) && splice_ok AMut (r_mut r)
     end.
(** arguments must keep their order: the closure is called positionally by the user *)
Definition good_arg_rule (nxt : target) (r : rule) : bool :=
  target_eqb (r_next r) nxt && keeps AConst (r_const r) && keeps AMut (r_mut r)
  && pieces_eqb (r_arg r) [PAcc AArg; PVar].
Definition first_for (rs : list rule) (p : pat) : option rule := find (fun r => pat_eqb (r_pat r) p) rs.
Definition check_rule (rs : list rule) (p : pat) (good : rule -> bool) : bool :=
  match first_for rs p with Some r => good r | None => false end.

Definition deco_of (a : acc) : deco := match a with AArg => Plain | AConst => Ref | AMut => RefMut end.
Definition seg_ok (s : seg) : bool := deco_eqb (seg_deco s) (deco_of (seg_acc s)).
(** in the inner call the arguments are the caller's expressions [$($x,)*], never the callee's own [$($arg,)*] *)
Definition tp_of (a : acc) : tpiece := match a with AArg => TCallArgs | AConst => TList AConst | AMut => TList AMut end.
Definition mem_acc (a : acc) (l : list acc) : bool := existsb (acc_eqb a) l.
Definition perm3 (l : list acc) : bool :=
  (length l =? 3) && mem_acc AArg l && mem_acc AConst l && mem_acc AMut l.
Definition final_ok (f : final) : bool :=
  let order := map seg_acc (f_params f) in
  perm3 order
  && forallb seg_ok (f_params f)
  && list_eqb fpiece_eqb (f_ruleA f) [FFirst; FRest]
  && list_eqb tpiece_eqb (f_ruleB f) (map tp_of order)
  && match f_clo_params f with [s] => acc_eqb (seg_acc s) AArg && deco_eqb (seg_deco s) Plain | _ => false end
  && list_eqb acc_eqb (map seg_acc (f_clo_call f)) order
  && forallb seg_ok (f_clo_call f).

Definition entry_for (ms : macros) (p : epat) : option mname :=
  match find (fun e => epat_eqb (fst e) p) (m_entry ms) with Some (_, m) => Some m | None => None end.
Definition entry_ok (ms : macros) : bool :=
  match entry_for ms ENoCaps, entry_for ms ECaps with
  | Some M1, Some M0 => true
  | _, _ => false
  end.

Definition well_formed (ms : macros) : bool :=
  entry_ok ms
  && check_rule (m_m0 ms) (PCapComma Shared) (good_cap_rule Shared false)
  && check_rule (m_m0 ms) (PCapComma Mutable) (good_cap_rule Mutable false)
  && check_rule (m_m0 ms) (PCapLast Shared) (good_cap_rule Shared true)
  && check_rule (m_m0 ms) (PCapLast Mutable) (good_cap_rule Mutable true)
  && check_rule (m_m1 ms) PArgComma (good_arg_rule (ToMuncher M1))
  && check_rule (m_m1 ms) (PArgLast true) (good_arg_rule (ToFinal RetMatched))
  && check_rule (m_m1 ms) (PArgLast false) (good_arg_rule (ToFinal RetUnit))
  && final_ok (m_final ms).

(** * Open-recursion semantics of the generated item and of the hand-written function *)
Inductive aval (V : Type) := AV (v : V) | ARefS (loc : N) | ARefM (loc : N).
Arguments AV {V} v. Arguments ARefS {V} loc. Arguments ARefM {V} loc.

Fixpoint assoc {B} (k : N) (l : list (N * B)) : option B :=
  match l with
  | [] => None
  | (k', b) :: l' => if N.eqb k k' then Some b else assoc k l'
  end.
Fixpoint mapM {A B} (f : A -> option B) (l : list A) : option (list B) :=
  match l with
  | [] => Some []
  | x :: l' => match f x, mapM f l' with Some y, Some ys => Some (y :: ys) | _, _ => None end
  end.
Fixpoint forallb2 {A B} (f : A -> B -> bool) (x : list A) (y : list B) : bool :=
  match x, y with
  | [], [] => true
  | a :: x', b :: y' => f a b && forallb2 f x' y'
  | _, _ => false
  end.

Definition arg_names (s : shape) : list N := map fst (sh_args s).
Definition caps_of (k : kind) (s : shape) : list var :=
  map cap_var (filter (fun c => kind_eqb (cap_kind c) k) (sh_caps s)).
Definition shared_names (s : shape) : list N := map fst (caps_of Shared s).
Definition mut_names (s : shape) : list N := map fst (caps_of Mutable s).
Definition all_names (s : shape) : list N := arg_names s ++ map (fun c => fst (cap_var c)) (sh_caps s).

Section Sem.
Variable V : Type.
(** the captured variables of the enclosing scope, by name *)
Definition store := N -> V.
(** a recursive call: syntax used (trailing comma or not), argument values, current state *)
Definition selfT := bool -> list V -> store -> option (V * store).
(** The user's body, parametric in how its free names are resolved: it receives the self-call,
    the values of its arguments, and the LOCATIONS its shared / mutable capture names denote
    (in the order the captures are declared).  [None] = does not compile / runs out of fuel. *)
Variable body : selfT -> list V -> list N -> list N -> store -> option (V * store).
Variable s : shape.

(** the equivalent hand-written recursive function: names denote the outer variables themselves *)
Fixpoint hand (n : nat) : selfT :=
  fun syn args st =>
  match n with
  | O => None
  | S n' => if length args =? length (sh_args s)
            then body (hand n') args (shared_names s) (mut_names s) st else None
  end.

Variable e : expansion.
Definition pname (p : N * N * deco) : N := fst (fst p).
(** a (very small) type check of an actual against a parameter *)
Definition bind_ok (p : N * N * deco) (a : aval V) : bool :=
  match snd p, a with Plain, AV _ | Ref, ARefS _ | RefMut, ARefM _ => true | _, _ => false end.
Definition get_val (env : list (N * aval V)) (k : N) : option V :=
  match assoc k env with Some (AV v) => Some v | _ => None end.
Definition get_refS (env : list (N * aval V)) (k : N) : option N :=
  match assoc k env with Some (ARefS l) => Some l | _ => None end.
Definition get_refM (env : list (N * aval V)) (k : N) : option N :=
  match assoc k env with Some (ARefM l) => Some l | _ => None end.
Definition eval_item (env : list (N * aval V)) (i : V + N) : option (aval V) :=
  match i with inl v => Some (AV v) | inr c => assoc c env end.

(** [fn _lambda_name_]: parameters are bound positionally; the body's names are looked up
    among the parameters; a recursive call goes through the inner macro *)
Fixpoint inner (n : nat) (acts : list (aval V)) (st : store) : option (V * store) :=
  match n with
  | O => None
  | S n' =>
      if forallb2 bind_ok (e_params e) acts then
        let env := combine (map pname (e_params e)) acts in
        match mapM (get_val env) (arg_names s), mapM (get_refS env) (shared_names s),
              mapM (get_refM env) (mut_names s) with
        | Some args, Some shl, Some mul =>
            body (fun syn args' st' =>
                    match mapM (eval_item env) (call_syn syn e (map inl args')) with
                    | Some acts' => inner n' acts' st'
                    | None => None
                    end) args shl mul st
        | _, _, _ => None
        end
      else None
  end.

(** the closure returned by the macro: borrows the outer variables and calls the inner fn *)
Definition closure (n : nat) (args : list V) (st : store) : option (V * store) :=
  if length args =? length (e_clo_params e) then
    let cenv := combine (map pname (e_clo_params e)) args in
    match mapM (fun nd : N * deco =>
                  match snd nd with
                  | Plain => option_map AV (assoc (fst nd) cenv)
                  | Ref => Some (ARefS (fst nd))
                  | RefMut => Some (ARefM (fst nd))
                  end) (e_clo_call e) with
    | Some acts => inner n acts st
    | None => None
    end
  else None.
End Sem.
