(** C20 — lemmas about the muncher model: reflection of [well_formed], the munchers never get stuck,
    positional consistency of the generated item, the two call syntaxes agree. *)
From Coq Require Import List NArith Bool Arith Lia Permutation.
From RlibV Require Import C20.Model C20.Spec C20.Current.
Import ListNotations.

(** ** reflection of the boolean equalities *)
Lemma list_eqb_eq {A} (e : A -> A -> bool) :
  (forall a b, e a b = true -> a = b) -> forall x y, list_eqb e x y = true -> x = y.
Proof.
  intros He x; induction x as [|a x IH]; intros [|b y] H; cbn in H; try discriminate; auto.
  apply andb_true_iff in H as [H1 H2]. f_equal; auto.
Qed.
Lemma acc_eqb_eq a b : acc_eqb a b = true -> a = b.
Proof. destruct a, b; cbn; congruence. Qed.
Lemma piece_eqb_eq a b : piece_eqb a b = true -> a = b.
Proof. destruct a as [|x], b as [|y]; cbn; try congruence. intros H; f_equal; now apply acc_eqb_eq. Qed.
Lemma mname_eqb_eq a b : mname_eqb a b = true -> a = b.
Proof. destruct a, b; cbn; congruence. Qed.
Lemma ret_src_eqb_eq a b : ret_src_eqb a b = true -> a = b.
Proof. destruct a, b; cbn; congruence. Qed.
Lemma target_eqb_eq a b : target_eqb a b = true -> a = b.
Proof.
  destruct a as [x|x], b as [y|y]; cbn; try congruence; intros H; f_equal.
  - now apply mname_eqb_eq. - now apply ret_src_eqb_eq.
Qed.
Lemma deco_eqb_eq a b : deco_eqb a b = true -> a = b.
Proof. destruct a, b; cbn; congruence. Qed.
Lemma fpiece_eqb_eq a b : fpiece_eqb a b = true -> a = b.
Proof. destruct a, b; cbn; congruence. Qed.
Lemma pieces_eqb_eq x y : pieces_eqb x y = true -> x = y.
Proof. apply list_eqb_eq, piece_eqb_eq. Qed.

Lemma keeps_spec a ps : keeps a ps = true -> ps = [PAcc a].
Proof. apply pieces_eqb_eq. Qed.
Lemma splice_ok_spec a ps : splice_ok a ps = true -> ps = [PVar; PAcc a] \/ ps = [PAcc a; PVar].
Proof. unfold splice_ok. intros H. apply orb_true_iff in H as [H|H]; apply pieces_eqb_eq in H; auto. Qed.

Lemma interp_keep A v a : interp A v [PAcc a] = get A a.
Proof. unfold interp. cbn. apply app_nil_r. Qed.
Lemma interp_front A v a : interp A v [PVar; PAcc a] = v :: get A a.
Proof. unfold interp. cbn. now rewrite app_nil_r. Qed.
Lemma interp_back A v a : interp A v [PAcc a; PVar] = get A a ++ [v].
Proof. reflexivity. Qed.

(** ** what one step of a good rule does *)
Definition vars_of (k : kind) (cs : list capture) : list var :=
  map cap_var (filter (fun c => kind_eqb (cap_kind c) k) cs).

Lemma cap_rule_step k last r A v :
  good_cap_rule k last r = true ->
  r_next r = ToMuncher (if last then M1 else M0)
  /\ a_arg (apply_rule r A v) = a_arg A
  /\ Permutation (a_const (apply_rule r A v)) (a_const A ++ vars_of Shared [mkCap k v])
  /\ Permutation (a_mut (apply_rule r A v)) (a_mut A ++ vars_of Mutable [mkCap k v]).
Proof.
  unfold good_cap_rule. intros H.
  apply andb_true_iff in H as [H Hk]. apply andb_true_iff in H as [Hn Ha].
  apply target_eqb_eq in Hn. apply keeps_spec in Ha.
  split; [exact Hn|]. unfold apply_rule; cbn [a_arg a_const a_mut].
  rewrite Ha, interp_keep. split; [reflexivity|].
  destruct k; apply andb_true_iff in Hk as [H1 H2]; cbn.
  - apply keeps_spec in H2. rewrite H2, interp_keep. cbn. rewrite app_nil_r. split; [|reflexivity].
    apply splice_ok_spec in H1 as [H1|H1]; rewrite H1.
    + rewrite interp_front. cbn. apply Permutation_cons_append.
    + rewrite interp_back. reflexivity.
  - apply keeps_spec in H1. rewrite H1, interp_keep. cbn. rewrite app_nil_r. split; [reflexivity|].
    apply splice_ok_spec in H2 as [H2|H2]; rewrite H2.
    + rewrite interp_front. cbn. apply Permutation_cons_append.
    + rewrite interp_back. reflexivity.
Qed.

Lemma arg_rule_step nxt r A v :
  good_arg_rule nxt r = true ->
  r_next r = nxt /\ apply_rule r A v = mkAccs (a_const A) (a_mut A) (a_arg A ++ [v]).
Proof.
  unfold good_arg_rule. intros H.
  apply andb_true_iff in H as [H H4]. apply andb_true_iff in H as [H H3]. apply andb_true_iff in H as [H1 H2].
  apply target_eqb_eq in H1. apply keeps_spec in H2. apply keeps_spec in H3. apply pieces_eqb_eq in H4.
  split; [exact H1|]. unfold apply_rule. rewrite H2, H3, H4, !interp_keep, interp_back. reflexivity.
Qed.

(** ** well-formedness, unpacked *)
Record wf (ms : macros) : Prop := {
  wf_e0 : entry_for ms ENoCaps = Some M1;
  wf_e1 : entry_for ms ECaps = Some M0;
  wf_cap : forall (k : kind) (last : bool), exists r,
      first_for (m_m0 ms) (if last then PCapLast k else PCapComma k) = Some r /\ good_cap_rule k last r = true;
  wf_argc : exists r, first_for (m_m1 ms) PArgComma = Some r /\ good_arg_rule (ToMuncher M1) r = true;
  wf_argl : forall b : bool, exists r, first_for (m_m1 ms) (PArgLast b) = Some r
                                /\ good_arg_rule (ToFinal (if b then RetMatched else RetUnit)) r = true;
  wf_fin : final_ok (m_final ms) = true
}.

Lemma check_rule_spec rs p good : check_rule rs p good = true -> exists r, first_for rs p = Some r /\ good r = true.
Proof. unfold check_rule. destruct (first_for rs p) as [r|]; [|discriminate]. eauto. Qed.

Lemma well_formed_wf ms : well_formed ms = true -> wf ms.
Proof.
  unfold well_formed. intros H.
  repeat (let H' := fresh "W" in apply andb_true_iff in H as [H H']).
  unfold entry_ok in H.
  destruct (entry_for ms ENoCaps) as [[|]|] eqn:E0; try discriminate.
  destruct (entry_for ms ECaps) as [[|]|] eqn:E1; try discriminate.
  constructor; auto.
  - intros [|] [|]; apply check_rule_spec; assumption.
  - apply check_rule_spec; assumption.
  - intros [|]; apply check_rule_spec; assumption.
Qed.

Lemma munch_cons ms m A h t :
  munch ms m A (h :: t) =
  match find_rule (rules_of ms m) h with
  | None => None
  | Some r =>
      match r_next r with
      | ToMuncher m' => munch ms m' (apply_rule r A (var_of h)) t
      | ToFinal rs => match t with [] => Some (emit (m_final ms) (apply_rule r A (var_of h)) (ret_of rs h)) | _ :: _ => None end
      end
  end.
Proof. reflexivity. Qed.

Lemma vars_of_cons k c cs : vars_of k (c :: cs) = vars_of k [c] ++ vars_of k cs.
Proof. unfold vars_of. cbn. destruct (kind_eqb (cap_kind c) k); reflexivity. Qed.

Lemma munch_caps ms : wf ms -> forall cs A t, cs <> [] ->
  exists A', munch ms M0 A (cap_heads cs ++ t) = munch ms M1 A' t
             /\ a_arg A' = a_arg A
             /\ Permutation (a_const A') (a_const A ++ vars_of Shared cs)
             /\ Permutation (a_mut A') (a_mut A ++ vars_of Mutable cs).
Proof.
  intros W cs. induction cs as [|c cs IH]; intros A t Hne; [congruence|].
  destruct c as [k v]. destruct cs as [|c' cs'].
  - cbn [cap_heads cap_kind cap_var app]. rewrite munch_cons.
    destruct (wf_cap ms W k true) as (r & Hf & Hg).
    change (find_rule (rules_of ms M0) (HCapLast k v)) with (first_for (m_m0 ms) (PCapLast k)). rewrite Hf.
    destruct (cap_rule_step k true r A v Hg) as (Hn & Ha & Hc & Hm). rewrite Hn.
    exists (apply_rule r A v). cbn [var_of]. auto.
  - change (cap_heads (mkCap k v :: c' :: cs')) with (HCapComma k v :: cap_heads (c' :: cs')).
    rewrite <- app_comm_cons, munch_cons.
    destruct (wf_cap ms W k false) as (r & Hf & Hg).
    change (find_rule (rules_of ms M0) (HCapComma k v)) with (first_for (m_m0 ms) (PCapComma k)). rewrite Hf.
    destruct (cap_rule_step k false r A v Hg) as (Hn & Ha & Hc & Hm). rewrite Hn. cbn [var_of].
    destruct (IH (apply_rule r A v) t ltac:(discriminate)) as (A' & He & Ha' & Hc' & Hm').
    exists A'. split; [exact He|]. split; [congruence|].
    rewrite (vars_of_cons Shared (mkCap k v)), (vars_of_cons Mutable (mkCap k v)), !app_assoc.
    split.
    + rewrite Hc'. apply Permutation_app_tail. exact Hc.
    + rewrite Hm'. apply Permutation_app_tail. exact Hm.
Qed.


Lemma munch_args ms : wf ms -> forall l A ret, l <> [] ->
  munch ms M1 A (arg_heads ret l) = Some (emit (m_final ms) (mkAccs (a_const A) (a_mut A) (a_arg A ++ l)) (ret_ty ret)).
Proof.
  intros W l. induction l as [|v l IH]; intros A ret Hne; [congruence|].
  destruct l as [|v' l'].
  - cbn [arg_heads]. rewrite munch_cons.
    destruct (wf_argl ms W (match ret with Some _ => true | None => false end)) as (r & Hf & Hg).
    change (find_rule (rules_of ms M1) (HArgLast v ret))
      with (first_for (m_m1 ms) (PArgLast (match ret with Some _ => true | None => false end))).
    rewrite Hf. destruct (arg_rule_step _ r A v Hg) as (Hn & Ha). rewrite Hn. cbn [var_of]. rewrite Ha.
    destruct ret; reflexivity.
  - change (arg_heads ret (v :: v' :: l')) with (HArgComma v :: arg_heads ret (v' :: l')).
    rewrite munch_cons. destruct (wf_argc ms W) as (r & Hf & Hg).
    change (find_rule (rules_of ms M1) (HArgComma v)) with (first_for (m_m1 ms) PArgComma). rewrite Hf.
    destruct (arg_rule_step _ r A v Hg) as (Hn & Ha). rewrite Hn. cbn [var_of]. rewrite Ha.
    rewrite IH by discriminate. cbn [a_const a_mut a_arg]. now rewrite <- app_assoc.
Qed.

(** the munchers never get stuck and the result is the final arm applied to the three lists *)
Lemma expand_spec ms s : wf ms -> sh_args s <> [] ->
  exists C M, expand ms s = Some (emit (m_final ms) (mkAccs C M (sh_args s)) (ret_ty (sh_ret s)))
              /\ Permutation C (caps_of Shared s) /\ Permutation M (caps_of Mutable s).
Proof.
  intros W Hargs. unfold expand, input_of, entry_pat.
  pose proof (wf_e0 ms W) as E0. pose proof (wf_e1 ms W) as E1. unfold entry_for in E0, E1.
  destruct (sh_caps s) as [|c cs] eqn:Ecaps.
  - destruct (find (fun e => epat_eqb (fst e) ENoCaps) (m_entry ms)) as [[p m]|]; [|discriminate].
    injection E0 as ->. cbn [cap_heads app]. rewrite munch_args by assumption.
    exists [], []. unfold caps_of. rewrite Ecaps. cbn. auto.
  - destruct (find (fun e => epat_eqb (fst e) ECaps) (m_entry ms)) as [[p m]|]; [|discriminate].
    injection E1 as ->.
    destruct (munch_caps ms W (c :: cs) empty_accs (arg_heads (sh_ret s) (sh_args s)) ltac:(discriminate))
      as (A' & He & Ha & Hc & Hm).
    rewrite He, munch_args by assumption. rewrite Ha. cbn [empty_accs a_arg a_const a_mut app] in *.
    exists (a_const A'), (a_mut A'). unfold caps_of. rewrite Ecaps. auto.
Qed.

Lemma tpiece_eqb_eq a b : tpiece_eqb a b = true -> a = b.
Proof. destruct a as [|x], b as [|y]; cbn; try congruence. intros H; f_equal; now apply acc_eqb_eq. Qed.

Lemma perm3_spec l : perm3 l = true -> Permutation l [AArg; AConst; AMut].
Proof.
  unfold perm3. destruct l as [|a [|b [|c [|d l]]]]; cbn [length Nat.eqb andb]; try discriminate.
  intros H.
  destruct a, b, c; cbn in H; try discriminate;
    first [ reflexivity
          | apply perm_swap
          | apply perm_skip, perm_swap
          | symmetry; apply (Permutation_cons_append [AConst; AMut] AArg)
          | symmetry; apply (Permutation_rev [AArg; AConst; AMut])
          | eapply perm_trans; [apply perm_swap|]; apply perm_skip, perm_swap ].
Qed.

Lemma segs_ok_spec l : forallb seg_ok l = true -> l = map (fun a => mkSeg a (deco_of a)) (map seg_acc l).
Proof.
  induction l as [|[a d] l IH]; cbn; [reflexivity|]. intros H.
  apply andb_true_iff in H as [H1 H2]. unfold seg_ok in H1. cbn in H1. apply deco_eqb_eq in H1. subst d.
  f_equal. auto.
Qed.

Lemma emit_params_order A order :
  emit_params A (map (fun a => mkSeg a (deco_of a)) order)
  = flat_map (fun a => map (fun v : var => (fst v, snd v, deco_of a)) (get A a)) order.
Proof. unfold emit_params. induction order as [|a o IH]; cbn; [reflexivity|]. now rewrite IH. Qed.
Lemma emit_call_order A order :
  emit_call A (map (fun a => mkSeg a (deco_of a)) order)
  = flat_map (fun a => map (fun v : var => (fst v, deco_of a)) (get A a)) order.
Proof. unfold emit_call. induction order as [|a o IH]; cbn; [reflexivity|]. now rewrite IH. Qed.
Lemma emit_tmpl_order A order :
  emit_tmpl A (map tp_of order)
  = flat_map (fun a => match a with AArg => [TIArgs] | _ => map (fun v : var => TIName (fst v)) (get A a) end) order.
Proof. unfold emit_tmpl. induction order as [|a o IH]; cbn; [reflexivity|]. rewrite IH. destruct a; reflexivity. Qed.

Lemma final_consistent f s C M :
  final_ok f = true -> Permutation C (caps_of Shared s) -> Permutation M (caps_of Mutable s) ->
  consistent s (emit f (mkAccs C M (sh_args s)) (ret_ty (sh_ret s))).
Proof.
  unfold final_ok. intros H HC HM.
  do 6 (let H' := fresh "F" in apply andb_true_iff in H as [H H']).
  set (order := map seg_acc (f_params f)) in *.
  apply perm3_spec in H. apply segs_ok_spec in F4. fold order in F4.
  apply (list_eqb_eq _ fpiece_eqb_eq) in F3. apply (list_eqb_eq _ tpiece_eqb_eq) in F2.
  apply (list_eqb_eq _ acc_eqb_eq) in F0. apply segs_ok_spec in F. rewrite F0 in F.
  destruct (f_clo_params f) as [|[a d] [|? ?]] eqn:Ecp; try discriminate.
  apply andb_true_iff in F1 as [F1a F1b]. cbn in F1a, F1b. apply acc_eqb_eq in F1a. apply deco_eqb_eq in F1b. subst a d.
  exists C, M, order. unfold emit. cbn [e_params e_tmpl e_clo_call e_clo_params e_ruleA e_ret].
  rewrite F4, F2, F, F3, Ecp, emit_params_order, emit_call_order, emit_tmpl_order.
  repeat split; auto.
  unfold emit_params. cbn. apply app_nil_r.
Qed.

Lemma expand_consistent ms s : well_formed ms = true -> sh_args s <> [] ->
  exists e, expand ms s = Some e /\ consistent s e.
Proof.
  intros H Ha. apply well_formed_wf in H.
  destruct (expand_spec ms s H Ha) as (C & M & He & HC & HM).
  eexists. split; [exact He|]. apply final_consistent; auto. apply (wf_fin ms H).
Qed.

Lemma expand_total ms s : well_formed ms = true -> sh_args s <> [] -> exists e, expand ms s = Some e.
Proof. intros H Ha. destruct (expand_consistent ms s H Ha) as (e & He & _). eauto. Qed.

Lemma call_syntaxes_agree {X} (s : shape) (e : expansion) (es : list (X + N)) :
  consistent s e -> call_plain e es = call_trailing e es.
Proof.
  intros (C & M & order & _ & _ & _ & _ & _ & _ & _ & HA & _).
  unfold call_plain. destruct es as [|x r]; [reflexivity|]. rewrite HA. cbn. now rewrite app_nil_r.
Qed.

Lemma current_well_formed : well_formed current_macros = true.
Proof. vm_compute. reflexivity. Qed.
