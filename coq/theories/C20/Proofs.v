(** C20 — lemmas about the muncher model. *)
From Coq Require Import List NArith Bool Arith Lia Permutation.
From RlibV Require Import C20.Model C20.Current.
Import ListNotations.

Lemma current_well_formed : well_formed current_macros = true.
Proof. vm_compute. reflexivity. Qed.
