(** C20 — property theorems (statements only; proofs in Proofs.v / ProofsSem.v).

    All theorems are about the token-level model of Model.v.  [ms] ranges over ALL macro descriptions;
    [well_formed] is a decidable predicate (a boolean function), checked by computation for the macros
    translated from the source on every run and for the snapshot [current_macros].

    What is NOT modelled — rustc's parsing of the [ty]/[expr] fragments, hygiene and name resolution,
    type checking, borrow checking — is covered only by the compile-and-run battery (see [c20_rustc_partial]). *)
From Coq Require Import List NArith Bool.
From RlibV Require Import C20.Model C20.Spec C20.Corr C20.Current C20.Proofs C20.ProofsSem C20.ProofsCorr.
Import ListNotations.

(** every shape with at least one argument — any number and interleaving of captures, including none,
    with or without a return type — is munched to the end: no arm gets stuck *)
Theorem c20_expand_total :
  forall (ms : macros) (s : shape), well_formed ms = true -> sh_args s <> [] -> exists e, expand ms s = Some e.
Proof. exact expand_total. Qed.

(** the generated item uses the three lists positionally in the same order in the fn signature, in the
    inner macro's call and in the closure's call; every capture exactly once, with the right reference kind
    (see [consistent] in Spec.v) *)
Theorem c20_positional_consistency :
  forall (ms : macros) (s : shape), well_formed ms = true -> sh_args s <> [] ->
  exists e, expand ms s = Some e /\ consistent s e.
Proof. exact expand_consistent. Qed.

(** [f!(e1, .., ek)] and [f!(e1, .., ek,)] reduce to the same call of the inner fn *)
Theorem c20_call_syntaxes_agree :
  forall (ms : macros) (s : shape) (e : expansion) (X : Type) (es : list (X + N)),
  well_formed ms = true -> sh_args s <> [] -> expand ms s = Some e ->
  call_plain e es = call_trailing e es.
Proof. exact call_syntaxes_agree_wf. Qed.

(** the closure built by the macro IS the hand-written recursive function: same result, same final
    state of the captured variables, for every body, every recursion depth, every call syntax *)
Theorem c20_semantics :
  forall (ms : macros) (s : shape) (e : expansion),
  well_formed ms = true -> sh_args s <> [] -> expand ms s = Some e -> NoDup (all_names s) ->
  forall (V : Type) (body : selfT V -> list V -> list N -> list N -> store V -> option (V * store V)),
  body_ext V body ->
  forall (n : nat) (syn : bool) (args : list V) (st : store V),
  closure V body s e n args st = hand V body s n syn args st.
Proof. exact semantics_wf. Qed.

(** the snapshot of the current source is a well-formed macro set ... *)
Theorem c20_current_well_formed : well_formed current_macros = true.
Proof. exact current_well_formed. Qed.

(** ... it builds its capture lists in reverse order of appearance (front splicing) ... *)
Theorem c20_current_order :
  forall s : shape, sh_args s <> [] ->
  expand current_macros s
  = Some (emit (m_final current_macros)
               (mkAccs (rev (caps_of Shared s)) (rev (caps_of Mutable s)) (sh_args s)) (ret_ty (sh_ret s))).
Proof. exact current_order. Qed.

(** ... hence everything above holds for it *)
Theorem c20_current_correct :
  forall s : shape, sh_args s <> [] -> NoDup (all_names s) ->
  exists e, expand current_macros s = Some e /\ consistent s e
            /\ (forall (X : Type) (es : list (X + N)), call_plain e es = call_trailing e es)
            /\ forall (V : Type) (body : selfT V -> list V -> list N -> list N -> store V -> option (V * store V)),
               body_ext V body ->
               forall (n : nat) (syn : bool) (args : list V) (st : store V),
               closure V body s e n args st = hand V body s n syn args st.
Proof. exact (correct_of_wf current_macros current_well_formed). Qed.

(** PARTIAL with respect to the property text: "compiles" is here "the munchers accept the invocation and
    the generated item passes the model's positional kind check"; "same results and side effects" is equality
    in the open-recursion semantics of Model.v.  Missing: rustc's fragment parsing ([ty], [expr]), hygiene
    (that [_lambda_name_], [$name] and the captured names resolve as the model assumes), type checking and
    borrow checking of the generated item.  Those are exercised only by the compile-and-run battery. *)
Theorem c20_rustc_partial :
  forall (ms : macros) (s : shape), well_formed ms = true -> sh_args s <> [] -> NoDup (all_names s) ->
  exists e, expand ms s = Some e
            /\ forall (V : Type) (body : selfT V -> list V -> list N -> list N -> store V -> option (V * store V)),
               body_ext V body ->
               forall (n : nat) (syn : bool) (args : list V) (st : store V),
               closure V body s e n args st = hand V body s n syn args st.
Proof. exact rustc_partial. Qed.

(** The correspondence check carries all of this to the item rustc really generated: whenever the observed
    expansion of a shape equals the model's prediction for a well-formed macro set (that is what the batch
    lemma [forallb model_check cases = true] establishes for every generated shape), the OBSERVED item is
    positionally consistent, every expanded recursive call found in the body is the one call both syntaxes
    reduce to, and the observed closure equals the hand-written recursive function in the model's semantics. *)
Theorem c20_observed_item_correct :
  forall (ms : macros) (s : shape) (trailing compiled : bool) (e' : expansion)
         (calls : list (list (N + N))) (rm rh : list BinNums.Z),
  well_formed ms = true -> sh_args s <> [] -> NoDup (all_names s) ->
  model_check_with ms (Case s trailing (Some (e', calls)) compiled rm rh) = true ->
  consistent s e'
  /\ Forall (fun c => c = call_trailing e' (map inl (iota (length (sh_args s)) 0%N))) calls
  /\ forall (V : Type) (body : selfT V -> list V -> list N -> list N -> store V -> option (V * store V)),
     body_ext V body ->
     forall (n : nat) (syn : bool) (args : list V) (st : store V),
     closure V body s e' n args st = hand V body s n syn args st.
Proof. exact observed_item_correct. Qed.
