(** C20 — property theorems (statements only; proofs in Proofs.v). *)
From Coq Require Import List NArith Bool.
From RlibV Require Import C20.Model C20.Corr C20.Current C20.Proofs.
Import ListNotations.

(** the snapshot of the current source is a well-formed macro set *)
Theorem c20_current_well_formed : well_formed current_macros = true.
Proof. exact current_well_formed. Qed.
