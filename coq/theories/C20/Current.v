(** C20 — SNAPSHOT of the translation of rlib/lambda/src/lib.rs (written by `python3 checks/c20.py --snapshot`).
    Every run translates the source again and compares with this value. *)
From Coq Require Import List NArith.
Import ListNotations.
From RlibV Require Import C20.Model.

Definition current_macros : macros :=
  mkMacros
  [(ENoCaps, M1); (ECaps, M0)]
  [
    mkRule (PCapComma Mutable) [PAcc AConst] [PVar; PAcc AMut] [PAcc AArg] (ToMuncher M0); 
    mkRule (PCapComma Shared) [PVar; PAcc AConst] [PAcc AMut] [PAcc AArg] (ToMuncher M0); 
    mkRule (PCapLast Mutable) [PAcc AConst] [PVar; PAcc AMut] [PAcc AArg] (ToMuncher M1); 
    mkRule (PCapLast Shared) [PVar; PAcc AConst] [PAcc AMut] [PAcc AArg] (ToMuncher M1)]
  [
    mkRule (PArgComma) [PAcc AConst] [PAcc AMut] [PAcc AArg; PVar] (ToMuncher M1); 
    mkRule (PArgLast true) [PAcc AConst] [PAcc AMut] [PAcc AArg; PVar] (ToFinal RetMatched); 
    mkRule (PArgLast false) [PAcc AConst] [PAcc AMut] [PAcc AArg; PVar] (ToFinal RetUnit)]
  (mkFinal [mkSeg AArg Plain; mkSeg AConst Ref; mkSeg AMut RefMut] [FFirst; FRest] [TCallArgs; TList AConst; TList AMut]
     [mkSeg AArg Plain] [mkSeg AArg Plain; mkSeg AConst Ref; mkSeg AMut RefMut]).
