(** C20 — the correspondence check carries the theorems to the OBSERVED expansion:
    if the real expansion of a shape equals the model's prediction ([model_check_with ms c = true]) and the
    macro description is well formed, the observed item itself is positionally consistent and, in the
    open-recursion semantics, equals the hand-written recursive function. *)
From Coq Require Import List NArith ZArith Bool Arith Lia Permutation.
From RlibV Require Import C20.Model C20.Spec C20.Corr C20.Proofs C20.ProofsSem.
Import ListNotations.

Lemma N_eqb_eq a b : N.eqb a b = true -> a = b.
Proof. apply N.eqb_eq. Qed.
Lemma p3_eqb_eq a b : p3_eqb a b = true -> a = b.
Proof.
  destruct a as [[a1 a2] a3], b as [[b1 b2] b3]. unfold p3_eqb. cbn. intros H.
  apply andb_true_iff in H as [H H3]. apply andb_true_iff in H as [H1 H2].
  apply N.eqb_eq in H1. apply N.eqb_eq in H2. apply deco_eqb_eq in H3. congruence.
Qed.
Lemma p2_eqb_eq a b : p2_eqb a b = true -> a = b.
Proof.
  destruct a as [a1 a2], b as [b1 b2]. unfold p2_eqb. cbn. intros H.
  apply andb_true_iff in H as [H1 H2]. apply N.eqb_eq in H1. apply deco_eqb_eq in H2. congruence.
Qed.
Lemma titem_eqb_eq a b : titem_eqb a b = true -> a = b.
Proof. destruct a as [|x], b as [|y]; cbn; try congruence. intros H. apply N.eqb_eq in H. congruence. Qed.
Lemma item_eqb_eq a b : item_eqb a b = true -> a = b.
Proof. destruct a as [x|x], b as [y|y]; cbn; try congruence; intros H; apply N.eqb_eq in H; congruence. Qed.

Lemma exp_eqb_eq a b : exp_eqb a b = true -> a = b.
Proof.
  destruct a as [a1 a2 a3 a4 a5 a6], b as [b1 b2 b3 b4 b5 b6]. unfold exp_eqb. cbn. intros H.
  do 5 (let H' := fresh "E" in apply andb_true_iff in H as [H H']).
  apply (list_eqb_eq _ p3_eqb_eq) in H. apply N.eqb_eq in E3. apply (list_eqb_eq _ fpiece_eqb_eq) in E2.
  apply (list_eqb_eq _ titem_eqb_eq) in E1. apply (list_eqb_eq _ p3_eqb_eq) in E0. apply (list_eqb_eq _ p2_eqb_eq) in E.
  congruence.
Qed.

Lemma observed_item_correct (ms : macros) (s : shape) (trailing compiled : bool) (e' : expansion)
      (calls : list (list (N + N))) (rm rh : list Z) :
  well_formed ms = true -> sh_args s <> [] -> NoDup (all_names s) ->
  model_check_with ms (Case s trailing (Some (e', calls)) compiled rm rh) = true ->
  consistent s e'
  /\ Forall (fun c => c = call_trailing e' (map inl (iota (length (sh_args s)) 0%N))) calls
  /\ forall (V : Type) (body : selfT V -> list V -> list N -> list N -> store V -> option (V * store V)),
     body_ext V body ->
     forall (n : nat) (syn : bool) (args : list V) (st : store V),
     closure V body s e' n args st = hand V body s n syn args st.
Proof.
  intros W Ha Hnd H. unfold model_check_with in H.
  destruct (correct_of_wf ms W s Ha Hnd) as (e & He & Hc & Hs & Hsem). rewrite He in H.
  apply andb_true_iff in H as [H Hcalls]. apply andb_true_iff in H as [_ H]. apply exp_eqb_eq in H. subst e'.
  split; [exact Hc|]. split; [|exact Hsem].
  apply Forall_forall. intros c Hin. rewrite forallb_forall in Hcalls. specialize (Hcalls c Hin).
  apply (list_eqb_eq _ item_eqb_eq) in Hcalls. rewrite Hcalls. unfold predicted_call, call_syn.
  destruct trailing; [reflexivity|apply Hs].
Qed.
