(** C19 — proofs: [get_index] is the row-major offset on valid indices and [None] otherwise; bijection. *)
From Coq Require Import List NArith ZArith Bool Lia.
From RlibV Require Import C19.Model C19.Spec.
From RlibV Require Import C19.ProofsBasic.
Import ListNotations.
Local Open Scope N_scope.

(* ---------------------------------------------------------------- validity *)
Lemma validb_spec ds : forall idx, validb ds idx = true <-> valid ds idx.
Proof.
  unfold valid. induction ds as [|d ds IH]; intros [|i idx]; cbn [validb].
  - split; [constructor|reflexivity].
  - split; [discriminate|intros H; inversion H].
  - split; [discriminate|intros H; inversion H].
  - rewrite andb_true_iff, IH, N.ltb_lt. split.
    + intros [H1 H2]. constructor; assumption.
    + intros H. inversion H; subst. split; assumption.
Qed.
Lemma valid_length ds idx : valid ds idx -> length idx = length ds.
Proof. unfold valid. induction 1 as [|i d idx ds' _ _ IH]; [reflexivity|]. cbn [length]. rewrite IH. reflexivity. Qed.
Lemma valid_positive ds idx : valid ds idx -> positive ds.
Proof.
  unfold valid, positive. induction 1 as [|i d idx ds H _ IH]; constructor; [lia|exact IH].
Qed.

Lemma validb_snoc ds d i : forall idx, validb (ds ++ [d]) (idx ++ [i]) = validb ds idx && (i <? d).
Proof.
  induction ds as [|e ds IH]; intros [|j idx]; cbn [validb app].
  - rewrite andb_true_r. reflexivity.
  - destruct idx; cbn [validb app]; rewrite andb_false_r; reflexivity.
  - destruct ds; cbn [validb app]; rewrite andb_false_r; reflexivity.
  - rewrite IH, andb_assoc. reflexivity.
Qed.
Lemma validb_nil_r ds : validb ds [] = match ds with [] => true | _ => false end.
Proof. destruct ds; reflexivity. Qed.
Lemma validb_rev ds : forall idx, validb (rev ds) (rev idx) = validb ds idx.
Proof.
  induction ds as [|d ds IH]; intros [|i idx]; cbn [rev validb].
  - reflexivity.
  - destruct (rev idx); reflexivity.
  - rewrite validb_nil_r. destruct (rev ds); reflexivity.
  - rewrite validb_snoc, IH. apply andb_comm.
Qed.

(* ---------------------------------------------------------------- get_index = row-major offset *)
(** little-endian reading of the reversed lists, as the loop computes it *)
Fixpoint leoff (rds ridx : list N) : N :=
  match rds, ridx with
  | d :: rds', i :: ridx' => i + d * leoff rds' ridx'
  | _, _ => 0
  end.

Lemma gi_loop_spec ridx : forall rds res sz,
  gi_loop ridx rds res sz = if validb rds ridx then Some (res + sz * leoff rds ridx) else None.
Proof.
  induction ridx as [|i ridx IH]; intros [|d rds] res sz; cbn [gi_loop validb leoff].
  - f_equal. lia.
  - reflexivity.
  - reflexivity.
  - destruct (i <? d); [|reflexivity]. rewrite IH. cbn [andb].
    destruct (validb rds ridx); [|reflexivity]. f_equal. ring.
Qed.

Lemma leoff_snoc rds d i : forall ridx, length ridx = length rds ->
  leoff (rds ++ [d]) (ridx ++ [i]) = leoff rds ridx + product rds * i.
Proof.
  induction rds as [|e rds IH]; intros [|j ridx] Hl; cbn [length] in Hl; try discriminate; cbn [app leoff].
  - change (product []) with 1. lia.
  - rewrite IH by lia. rewrite product_cons. ring.
Qed.
Lemma leoff_rev ds : forall idx, length idx = length ds -> leoff (rev ds) (rev idx) = offset ds idx.
Proof.
  induction ds as [|d ds IH]; intros [|i idx] Hl; cbn [length] in Hl; try discriminate; cbn [rev offset].
  - reflexivity.
  - rewrite leoff_snoc by (rewrite !rev_length; lia). rewrite IH by lia. rewrite product_rev. ring.
Qed.

Lemma get_index_spec ds idx :
  get_index ds idx = if validb ds idx then Some (offset ds idx) else None.
Proof.
  unfold get_index. rewrite gi_loop_spec, validb_rev.
  destruct (validb ds idx) eqn:E; [|reflexivity].
  apply validb_spec, valid_length in E. rewrite leoff_rev by exact E. f_equal. lia.
Qed.

Lemma offset_lt ds idx : valid ds idx -> offset ds idx < product ds.
Proof.
  unfold valid. induction 1 as [|i d idx ds Hi _ IH]; [cbn; lia|].
  cbn [offset]. rewrite product_cons. nia.
Qed.

Lemma offset_inj ds : forall idx1 idx2, valid ds idx1 -> valid ds idx2 ->
  offset ds idx1 = offset ds idx2 -> idx1 = idx2.
Proof.
  induction ds as [|d ds IH]; intros idx1 idx2 H1 H2 He; inversion H1; inversion H2; subst; [reflexivity|].
  cbn [offset] in He.
  match goal with Ha : Forall2 _ ?l ds, Hb : Forall2 _ ?l' ds |- _ :: ?l = _ :: ?l' =>
    pose proof (offset_lt _ _ Ha) as La; pose proof (offset_lt _ _ Hb) as Lb end.
  match goal with |- ?x :: ?l = ?y :: ?l' =>
    destruct (N.div_mod_unique (product ds) x y (offset ds l) (offset ds l')) as [Q R]; [exact La|exact Lb|lia|]
  end.
  subst. f_equal. apply IH; assumption.
Qed.

Lemma unflatten_valid ds : forall k, k < product ds -> valid ds (unflatten ds k) /\ offset ds (unflatten ds k) = k.
Proof.
  unfold valid. induction ds as [|d ds IH]; intros k Hk; cbn [unflatten offset].
  - split; [constructor|]. change (product []) with 1 in Hk. lia.
  - rewrite product_cons in Hk.
    assert (Hp : product ds <> 0) by (intros E; rewrite E in Hk; lia).
    destruct (IH (k mod product ds)) as [Hv Ho]; [apply N.mod_lt; exact Hp|].
    split.
    + constructor; [|exact Hv]. apply N.div_lt_upper_bound; [exact Hp|lia].
    + rewrite Ho. rewrite N.mul_comm. symmetry. apply N.div_mod. exact Hp.
Qed.

Lemma validb_out_of_range ds : forall idx n i d,
  nth_error idx n = Some i -> nth_error ds n = Some d -> d <= i -> validb ds idx = false.
Proof.
  induction ds as [|e ds IH]; intros [|j idx] [|n] i d Hi Hd Hle; cbn in Hi, Hd; try discriminate; cbn [validb].
  - inversion Hi; inversion Hd; subst. destruct (N.ltb_spec i d); [lia|reflexivity].
  - rewrite (IH _ _ _ _ Hi Hd Hle). apply andb_false_r.
Qed.

(* ---------------------------------------------------------------- packaged statements *)
Lemma get_index_rowmajor ds idx : valid ds idx ->
  get_index ds idx = Some (offset ds idx) /\ offset ds idx < product ds.
Proof.
  intros Hv. rewrite get_index_spec. pose proof Hv as Hb. apply validb_spec in Hb. rewrite Hb.
  split; [reflexivity|apply offset_lt; exact Hv].
Qed.
Lemma get_index_injective ds idx1 idx2 : valid ds idx1 -> valid ds idx2 ->
  get_index ds idx1 = get_index ds idx2 -> idx1 = idx2.
Proof.
  intros H1 H2 He. destruct (get_index_rowmajor _ _ H1) as [E1 _]. destruct (get_index_rowmajor _ _ H2) as [E2 _].
  rewrite E1, E2 in He. inversion He. apply (offset_inj ds); assumption.
Qed.
Lemma get_index_surjective ds k : k < product ds ->
  exists idx, valid ds idx /\ get_index ds idx = Some k /\
              forall idx', valid ds idx' -> get_index ds idx' = Some k -> idx' = idx.
Proof.
  intros Hk. destruct (unflatten_valid ds k Hk) as [Hv Ho]. exists (unflatten ds k).
  destruct (get_index_rowmajor _ _ Hv) as [E _]. rewrite Ho in E.
  split; [exact Hv|]. split; [exact E|].
  intros idx' Hv' E'. apply (get_index_injective ds); [exact Hv'|exact Hv|congruence].
Qed.

(* ---------------------------------------------------------------- no usize overflow *)
Lemma gi_loop_chk_ok W ridx : forall rdims res sz,
  positive rdims -> res < sz -> sz * product rdims <= W ->
  gi_loop_chk W ridx rdims res sz = gi_loop ridx rdims res sz.
Proof.
  induction ridx as [|i ridx IH]; intros [|d rdims] res sz Hp Hr Hw; cbn [gi_loop_chk gi_loop]; try reflexivity.
  destruct (N.ltb_spec i d) as [Hi|Hi]; [|reflexivity].
  inversion Hp as [|? ? Hd Hp']; subst. rewrite product_cons in Hw.
  pose proof (positive_product _ Hp') as Hpp.
  assert (H1 : sz * i <= sz * d) by nia.
  assert (H2 : res + sz * i < sz * d) by nia.
  assert (H3 : sz * d <= sz * d * product rdims) by nia.
  assert (H4 : sz * d * product rdims <= W) by (rewrite <- N.mul_assoc; exact Hw).
  destruct (N.leb_spec (sz * i) W); [|lia].
  destruct (N.leb_spec (res + sz * i) W); [|lia].
  destruct (N.leb_spec (sz * d) W); [|lia].
  cbn [andb]. apply IH; [exact Hp'|exact H2|exact H4].
Qed.

Lemma positive_rev ds : positive ds -> positive (rev ds).
Proof. unfold positive. apply Forall_rev. Qed.

Lemma get_index_no_overflow W ds idx : positive ds -> product ds <= W ->
  get_index_chk W ds idx = get_index ds idx.
Proof.
  intros Hp Hw. unfold get_index_chk, get_index. apply gi_loop_chk_ok.
  - apply positive_rev. exact Hp.
  - lia.
  - rewrite product_rev. lia.
Qed.
