(** C19 — proofs: the odometer of [Writable::write] emits [render]; reading it back. *)
From Coq Require Import List NArith ZArith Bool Lia.
From RlibV Require Import C19.Model C19.Spec.
From RlibV Require Import C19.ProofsBasic C19.ProofsIndex C19.ProofsTensor.
Import ListNotations.
Local Open Scope N_scope.

(* ---------------------------------------------------------------- wraps *)
Lemma wraps_shift ds : forall m q, product ds <> 0 -> wraps ds (q * product ds + m) = wraps ds m.
Proof.
  induction ds as [|d ds IH]; intros m q Hp; [reflexivity|].
  cbn [wraps]. rewrite product_cons in Hp.
  assert (Hp' : product ds <> 0) by (intros E; rewrite E in Hp; lia).
  f_equal.
  - rewrite N.add_comm, N.mod_add by (rewrite product_cons; exact Hp). reflexivity.
  - rewrite product_cons. replace (q * (d * product ds) + m) with ((q * d) * product ds + m) by ring.
    apply IH. exact Hp'.
Qed.
Lemma wraps_full ds : forall m, product ds <> 0 -> m mod product ds = 0 -> wraps ds m = length ds.
Proof.
  induction ds as [|d ds IH]; intros m Hp Hm; [reflexivity|].
  cbn [wraps length]. rewrite Hm. cbn [N.eqb Nat.add]. f_equal.
  rewrite product_cons in Hp, Hm.
  assert (Hp' : product ds <> 0) by (intros E; rewrite E in Hp; lia).
  apply IH; [exact Hp'|].
  apply N.mod_divide in Hm; [|exact Hp]. destruct Hm as [c Hc].
  apply N.mod_divide; [exact Hp'|]. exists (c * d). rewrite Hc. ring.
Qed.

Lemma offset_zero ds : forall idx : list N, offset ds (map (fun _ => 0) idx) = 0.
Proof.
  induction ds as [|d ds IH]; intros [|i idx]; cbn [map offset]; try reflexivity.
  rewrite IH. lia.
Qed.
Lemma valid_zero ds : forall idx : list N, valid ds idx -> valid ds (map (fun _ => 0) idx).
Proof.
  unfold valid. induction 1 as [|i d idx ds' H _ IH]; cbn [map]; constructor; [lia|exact IH].
Qed.
Lemma valid_zero_dims ds : positive ds -> valid ds (map (fun _ => 0) ds).
Proof.
  unfold valid, positive. induction 1 as [|d ds' H _ IH]; cbn [map]; constructor; [lia|exact IH].
Qed.

Definition more (p : N * N) : bool := negb (fst p + 1 =? snd p).

(** one turn of the odometer *)
Lemma odometer_step ds idx : valid ds idx ->
  match rposition more (combine idx ds) with
  | None => offset ds idx + 1 = product ds
  | Some pos =>
      (pos < length ds)%nat /\ valid ds (bump idx pos) /\
      offset ds (bump idx pos) = offset ds idx + 1 /\
      offset ds idx + 1 < product ds /\
      wraps ds (offset ds idx + 1) = (length ds - pos - 1)%nat
  end.
Proof.
  unfold valid. induction 1 as [|i d idx ds Hi Hv IH].
  - cbn. reflexivity.
  - cbn [combine rposition].
    pose proof (offset_lt _ _ Hv) as Hlt.
    assert (Hp : product ds <> 0) by lia.
    destruct (rposition more (combine idx ds)) as [pos|].
    + destruct IH as (I1 & I2 & I3 & I4 & I5).
      cbn [bump offset length]. rewrite product_cons.
      split; [lia|]. split; [constructor; assumption|]. split; [rewrite I3; ring|].
      assert (Hb : i * product ds + offset ds idx + 1 < d * product ds) by nia.
      split; [exact Hb|].
      cbn [wraps]. rewrite product_cons.
      rewrite N.mod_small by exact Hb.
      destruct (N.eqb_spec (i * product ds + offset ds idx + 1) 0) as [E|_]; [lia|].
      replace (i * product ds + offset ds idx + 1) with (i * product ds + (offset ds idx + 1)) by ring.
      rewrite wraps_shift by exact Hp. rewrite I5. cbn [Nat.add]. lia.
    + unfold more at 1. cbn [fst snd].
      destruct (N.eqb_spec (i + 1) d) as [E|E]; cbn [negb].
      * cbn [offset]. rewrite product_cons. subst d. nia.
      * cbn [bump offset length]. rewrite product_cons, offset_zero.
        assert (Hi' : i + 1 < d) by lia.
        split; [lia|]. split; [constructor; [exact Hi'|apply valid_zero; exact Hv]|].
        split; [nia|].
        assert (Hb : i * product ds + offset ds idx + 1 < d * product ds) by nia.
        split; [exact Hb|].
        cbn [wraps]. rewrite product_cons. rewrite N.mod_small by exact Hb.
        destruct (N.eqb_spec (i * product ds + offset ds idx + 1) 0) as [E0|_]; [lia|].
        rewrite wraps_full; [cbn [Nat.add]; lia|exact Hp|].
        replace (i * product ds + offset ds idx + 1) with ((i + 1) * product ds) by nia.
        apply N.mod_mul. exact Hp.
Qed.

Section Elem.
Context {A : Type}.
Implicit Types (t : tensor A) (l : list A).

Lemma seps_sep_spec ds pos m : (pos < length ds)%nat -> wraps ds m = (length ds - pos - 1)%nat ->
  @seps A (length ds) pos = sep_spec ds m.
Proof.
  intros Hpos Hw. unfold seps, sep_spec. rewrite Hw.
  destruct (Nat.eqb_spec (pos + 1) (length ds)) as [E|E].
  - replace (length ds - pos - 1)%nat with O by lia. reflexivity.
  - destruct (length ds - pos - 1)%nat eqn:F; [lia|reflexivity].
Qed.

Lemma write_loop_spec t : wf t ->
  forall fuel idx pre suf, valid (dims t) idx -> data t = pre ++ suf ->
    lenN pre = offset (dims t) idx -> length fuel = length suf ->
    write_loop fuel t idx = Some (render_from (dims t) (offset (dims t) idx) suf).
Proof.
  intros [Hp Hl]. induction fuel as [|f fuel IH]; intros idx pre suf Hv Hd Hpre Hlen.
  - destruct suf; [|discriminate]. rewrite app_nil_r in Hd. subst pre.
    pose proof (offset_lt _ _ Hv). rewrite lenN_length in Hpre. lia.
  - destruct suf as [|x suf]; [discriminate|]. cbn [length] in Hlen.
    cbn [write_loop]. unfold index. rewrite get_index_spec.
    pose proof Hv as Hb. apply validb_spec in Hb. rewrite Hb.
    rewrite Hd, <- Hpre, nthN_app_len.
    fold more. pose proof (odometer_step _ _ Hv) as Hs.
    assert (Hn : lenN pre + 1 + lenN suf = product (dims t)).
    { rewrite <- Hl, Hd, <- lenN_length, lenN_app. cbn [lenN]. lia. }
    destruct (rposition more (combine idx (dims t))) as [pos|].
    + destruct Hs as (S1 & S2 & S3 & S4 & S5).
      rewrite (IH (bump idx pos) (pre ++ [x]) suf); try assumption.
      * rewrite S3, (seps_sep_spec _ _ _ S1 S5). cbn [render_from].
        destruct suf as [|y suf]; [cbn [lenN] in Hn; lia|]. rewrite Hpre. reflexivity.
      * rewrite Hd, <- app_assoc. reflexivity.
      * rewrite S3, lenN_app. cbn [lenN]. lia.
      * lia.
    + destruct suf as [|y suf]; [reflexivity|]. cbn [lenN] in Hn. lia.
Qed.

Lemma write_spec t : wf t -> write t = Some (render (dims t) (data t)).
Proof.
  intros Hw. unfold write, render. pose proof Hw as [Hp Hl].
  pose proof (valid_zero_dims _ Hp) as Hv.
  rewrite (write_loop_spec t Hw (data t) _ [] (data t) Hv); try reflexivity.
  - rewrite offset_zero. reflexivity.
  - rewrite offset_zero. reflexivity.
Qed.

(* ---------------------------------------------------------------- the written text *)
Lemma elems_app (a b : list (tok A)) : elems (a ++ b) = elems a ++ elems b.
Proof.
  induction a as [|[x| |] a IH]; cbn [app elems]; [reflexivity| |exact IH|exact IH].
  rewrite IH. reflexivity.
Qed.
Lemma elems_sep ds m : elems (@sep_spec A ds m) = [].
Proof.
  unfold sep_spec. destruct (wraps ds m) as [|c]; [reflexivity|].
  induction (S c) as [|n IH]; [reflexivity|exact IH].
Qed.
Lemma elems_render_from ds l : forall k, elems (render_from ds k l) = l.
Proof.
  induction l as [|x l IH]; intros k; [reflexivity|].
  cbn [render_from elems]. f_equal. destruct l as [|y l]; [reflexivity|].
  rewrite elems_app, elems_sep, IH. reflexivity.
Qed.

(* ---------------------------------------------------------------- reading it back *)
Lemma read_vec_zero (toks : list (tok A)) : read_vec 0 toks = Some [].
Proof. destruct toks; reflexivity. Qed.
Lemma read_vec_sep ds m n (toks : list (tok A)) : read_vec n (sep_spec ds m ++ toks) = read_vec n toks.
Proof.
  destruct (N.eqb_spec n 0) as [->|Hn]; [rewrite !read_vec_zero; reflexivity|].
  unfold sep_spec. destruct (wraps ds m) as [|c].
  - cbn [app read_vec]. destruct (N.eqb_spec n 0); [contradiction|reflexivity].
  - induction (S c) as [|q IH]; [reflexivity|].
    cbn [repeat app read_vec]. destruct (N.eqb_spec n 0); [contradiction|exact IH].
Qed.
Lemma read_vec_render ds l : forall k, read_vec (lenN l) (render_from ds k l) = Some l.
Proof.
  induction l as [|x l IH]; intros k; [reflexivity|].
  cbn [lenN render_from read_vec].
  destruct (N.eqb_spec (N.succ (lenN l)) 0) as [E|_]; [lia|].
  rewrite N.pred_succ. destruct l as [|y l]; [reflexivity|].
  rewrite read_vec_sep, IH. reflexivity.
Qed.
Lemma read_render t : wf t -> read (dims t) (render (dims t) (data t)) = Some t.
Proof.
  intros [Hp Hl]. unfold read, render.
  apply contains0_false in Hp. rewrite Hp, prod_product, <- Hl, <- lenN_length, read_vec_render.
  destruct t; reflexivity.
Qed.
(* ---------------------------------------------------------------- the Debug text *)
Lemma dseps_dsep_spec ds pos m : (pos < length ds)%nat -> wraps ds m = (length ds - pos - 1)%nat ->
  @dseps A (length ds) pos = dsep_spec ds m.
Proof.
  intros Hpos Hw. unfold dseps, dsep_spec. rewrite Hw.
  destruct (Nat.eqb_spec (pos + 1) (length ds)) as [E|E]; [|reflexivity].
  replace (length ds - pos - 1)%nat with O by lia. reflexivity.
Qed.

Lemma debug_loop_spec t : wf t ->
  forall fuel idx pre suf, valid (dims t) idx -> data t = pre ++ suf ->
    lenN pre = offset (dims t) idx -> length fuel = length suf ->
    debug_loop fuel t idx = Some (dbg_from (dims t) (offset (dims t) idx) suf).
Proof.
  intros [Hp Hl]. induction fuel as [|f fuel IH]; intros idx pre suf Hv Hd Hpre Hlen.
  - destruct suf; [|discriminate]. rewrite app_nil_r in Hd. subst pre.
    pose proof (offset_lt _ _ Hv). rewrite lenN_length in Hpre. lia.
  - destruct suf as [|x suf]; [discriminate|]. cbn [length] in Hlen.
    cbn [debug_loop]. unfold index. rewrite get_index_spec.
    pose proof Hv as Hb. apply validb_spec in Hb. rewrite Hb.
    rewrite Hd, <- Hpre, nthN_app_len.
    fold more. pose proof (odometer_step _ _ Hv) as Hs.
    assert (Hn : lenN pre + 1 + lenN suf = product (dims t)).
    { rewrite <- Hl, Hd, <- lenN_length, lenN_app. cbn [lenN]. lia. }
    destruct (rposition more (combine idx (dims t))) as [pos|].
    + destruct Hs as (S1 & S2 & S3 & S4 & S5).
      rewrite (IH (bump idx pos) (pre ++ [x]) suf); try assumption.
      * rewrite S3, (dseps_dsep_spec _ _ _ S1 S5). cbn [dbg_from].
        destruct suf as [|y suf]; [cbn [lenN] in Hn; lia|]. rewrite Hpre. reflexivity.
      * rewrite Hd, <- app_assoc. reflexivity.
      * rewrite S3, lenN_app. cbn [lenN]. lia.
      * lia.
    + destruct suf as [|y suf]; [reflexivity|]. cbn [lenN] in Hn. lia.
Qed.

Lemma debug_correct t : wf t -> debug t = Some (debug_spec (dims t) (data t)).
Proof.
  intros Hw. unfold debug, debug_spec. pose proof Hw as [Hp Hl].
  pose proof (valid_zero_dims _ Hp) as Hv.
  rewrite (debug_loop_spec t Hw (data t) _ [] (data t) Hv); try reflexivity.
  - rewrite offset_zero. reflexivity.
  - rewrite offset_zero. reflexivity.
Qed.
End Elem.

(* ---------------------------------------------------------------- what [wraps] counts *)
Lemma wraps_le_length ds m : (wraps ds m <= length ds)%nat.
Proof.
  induction ds as [|d ds IH]; [cbn; lia|]. cbn [wraps length].
  destruct (m mod product (d :: ds) =? 0); lia.
Qed.

(** [wraps ds m] is the largest [c] such that the product of the last [c] extents divides [m] *)
Lemma wraps_char ds : product ds <> 0 -> forall m c, (c <= length ds)%nat ->
  ((c <= wraps ds m)%nat <-> (product (skipn (length ds - c) ds) | m)).
Proof.
  induction ds as [|d ds IH]; intros Hp m c Hc.
  - cbn in Hc. assert (c = O) by lia. subst c. cbn. split; [intros _; exists m; lia|lia].
  - pose proof Hp as Hp0. rewrite product_cons in Hp.
    assert (Hp' : product ds <> 0) by (intros E; rewrite E in Hp; lia).
    cbn [length] in Hc. cbn [wraps].
    destruct (Nat.eq_dec c (S (length ds))) as [->|Hne].
    + cbn [length]. rewrite Nat.sub_diag. cbn [skipn].
      pose proof (wraps_le_length ds m) as Hle.
      destruct (N.eqb_spec (m mod product (d :: ds)) 0) as [E|E].
      * rewrite (wraps_full ds m Hp'); [|].
        -- split; [intros _; apply N.mod_divide; assumption|lia].
        -- apply N.mod_divide in E; [|exact Hp0]. destruct E as [q Hq].
           apply N.mod_divide; [exact Hp'|]. exists (q * d). rewrite Hq, product_cons. ring.
      * split; [lia|]. intros Hd. apply N.mod_divide in Hd; [contradiction|exact Hp0].
    + assert (Hc' : (c <= length ds)%nat) by lia.
      cbn [length]. replace (S (length ds) - c)%nat with (S (length ds - c)) by lia. cbn [skipn].
      rewrite <- (IH Hp' m c Hc').
      destruct (N.eqb_spec (m mod product (d :: ds)) 0) as [E|E]; [|cbn [Nat.add]; reflexivity].
      rewrite (wraps_full ds m Hp'); [lia|].
      apply N.mod_divide in E; [|exact Hp0]. destruct E as [q Hq].
      apply N.mod_divide; [exact Hp'|]. exists (q * d). rewrite Hq, product_cons. ring.
Qed.

(* ---------------------------------------------------------------- packaged statements *)
Lemma write_order {A} (t : tensor A) : wf t ->
  write t = Some (render (dims t) (data t)) /\ elems (render (dims t) (data t)) = data t.
Proof. intros Hw. split; [apply write_spec; exact Hw|apply elems_render_from]. Qed.
Lemma write_read_roundtrip {A} (t : tensor A) : wf t ->
  exists out, write t = Some out /\ read (dims t) out = Some t.
Proof. intros Hw. exists (render (dims t) (data t)). split; [apply write_spec|apply read_render]; exact Hw. Qed.
