(** C19 — long integer literals of the correspondence cases.

    The elements of a tensor are abstract in the model; a case carries them as [Z].  Elements of the wide
    types (u64, i128, u128, tuples packed into one integer) are 64..128-bit numbers that occur a dozen times
    per case, and elaborating a decimal [Z] literal costs time proportional to its bit length (milliseconds
    for 128 bits).  The case printer therefore writes an integer of 32 bits and more as its sign and its
    base-2^62 digits, most significant first, each digit a primitive [Uint63] literal; [bigz] puts the number
    together again inside [vm_compute].  Nothing here is used by a theorem. *)
From Coq Require Import List ZArith Uint63.
Import ListNotations.

Definition bigz (neg : bool) (limbs : list int) : Z :=
  let v := fold_left (fun acc x => (acc * 4611686018427387904 + Uint63.to_Z x)%Z) limbs 0%Z in
  if neg then Z.opp v else v.

Example bigz_u128_max :
  bigz false [15%uint63; 4611686018427387903%uint63; 4611686018427387903%uint63]
  = 340282366920938463463374607431768211455%Z.
Proof. vm_compute. reflexivity. Qed.

Example bigz_i128_min :
  bigz true [8%uint63; 0%uint63; 0%uint63] = (-170141183460469231731687303715884105728)%Z.
Proof. vm_compute. reflexivity. Qed.

Example bigz_one_limb : bigz true [4294967296%uint63] = (-4294967296)%Z.
Proof. vm_compute. reflexivity. Qed.
