(** C19 — proofs: the written text as nested structure (sub-tensors joined by their separators). *)
From Coq Require Import List NArith ZArith Bool Lia.
From RlibV Require Import C19.Model C19.Spec.
From RlibV Require Import C19.ProofsBasic C19.ProofsIndex C19.ProofsTensor C19.ProofsWrite.
Import ListNotations.
Local Open Scope N_scope.

Lemma wraps_app pre : forall ds m, product (pre ++ ds) <> 0 -> m mod product ds <> 0 ->
  wraps (pre ++ ds) m = wraps ds m.
Proof.
  induction pre as [|p pre IH]; intros ds m Hp Hm; [reflexivity|].
  cbn [app wraps]. cbn [app] in Hp. pose proof Hp as Hp0. rewrite product_cons in Hp.
  assert (Hp' : product (pre ++ ds) <> 0) by (intros E; rewrite E in Hp; lia).
  rewrite IH by assumption.
  destruct (N.eqb_spec (m mod product (p :: pre ++ ds)) 0) as [E|E]; [|reflexivity].
  exfalso. apply Hm. apply N.mod_divide in E; [|exact Hp0]. destruct E as [q Hq].
  assert (Hd : product ds <> 0).
  { intros E. rewrite product_app, E in Hp'. lia. }
  apply N.mod_divide; [exact Hd|]. exists (q * p * product pre).
  rewrite Hq, product_cons, product_app. ring.
Qed.

Section Elem.
Context {A : Type}.
Implicit Types (l b rest : list A).

Lemma render_from_app full : forall b k rest, b <> [] -> rest <> [] ->
  render_from full k (b ++ rest) =
  render_from full k b ++ sep_spec full (k + lenN b) ++ render_from full (k + lenN b) rest.
Proof.
  induction b as [|x b IH]; intros k rest Hb Hr; [contradiction|].
  destruct b as [|y b].
  - cbn [app render_from lenN]. destruct rest as [|z rest]; [contradiction|].
    replace (k + N.succ 0) with (k + 1) by lia. reflexivity.
  - change ((x :: y :: b) ++ rest) with (x :: (y :: b) ++ rest).
    cbn [render_from]. change ((y :: b) ++ rest) with (y :: b ++ rest) at 1.
    cbv iota. rewrite (IH (k + 1) rest); [|discriminate|exact Hr].
    change (lenN (x :: y :: b)) with (N.succ (lenN (y :: b))).
    replace (k + N.succ (lenN (y :: b))) with (k + 1 + lenN (y :: b)) by lia.
    cbn [app]. rewrite <- !app_assoc. reflexivity.
Qed.

Lemma sep_boundary pre d ds' m : positive (pre ++ d :: ds') ->
  m mod product ds' = 0 -> m mod product (d :: ds') <> 0 ->
  @sep_spec A (pre ++ d :: ds') m = block_sep ds'.
Proof.
  intros Hp H0 H1. unfold sep_spec.
  pose proof (positive_product _ Hp) as Hpp.
  rewrite wraps_app; [|lia|exact H1].
  assert (Hd : product ds' <> 0).
  { intros E. rewrite product_app, product_cons, E in Hpp. lia. }
  cbn [wraps]. destruct (N.eqb_spec (m mod product (d :: ds')) 0) as [E|_]; [contradiction|].
  rewrite wraps_full by assumption. cbn [Nat.add]. unfold block_sep.
  destruct ds'; reflexivity.
Qed.
End Elem.

Section Elem.
Context {A : Type}.
Implicit Types (l b rest : list A).

Lemma lenN_zero l : lenN l = 0 -> l = [].
Proof. destruct l; [reflexivity|cbn [lenN]; lia]. Qed.

Lemma split_block l (P : N) (c : nat) : lenN l = N.of_nat (S c) * P ->
  l = firstn (N.to_nat P) l ++ skipn (N.to_nat P) l /\
  lenN (firstn (N.to_nat P) l) = P /\ lenN (skipn (N.to_nat P) l) = N.of_nat c * P.
Proof.
  intros H. split; [symmetry; apply firstn_skipn|].
  assert (E : N.of_nat (S c) * P = P + N.of_nat c * P) by (rewrite Nat2N.inj_succ, N.mul_succ_l; lia).
  rewrite E in H. rewrite !lenN_length in *. rewrite firstn_length, skipn_length. split; lia.
Qed.

Lemma nested_blocks pre d ds' k
  (Hp : positive (pre ++ d :: ds'))
  (Hk : k mod product (d :: ds') = 0)
  (IHds : forall k' b, lenN b = product ds' -> k' mod product ds' = 0 ->
                       render_from (pre ++ d :: ds') k' b = nested ds' b) :
  forall (c : nat) (i : N) l, (1 <= c)%nat -> i + N.of_nat c = d -> lenN l = N.of_nat c * product ds' ->
    render_from (pre ++ d :: ds') (k + i * product ds') l =
    join (block_sep ds') (map (nested ds') (blocks c (N.to_nat (product ds')) l)).
Proof.
  pose proof (positive_product _ Hp) as Hpp. rewrite product_app, product_cons in Hpp.
  assert (HP : product ds' <> 0) by (intros E; rewrite E in Hpp; lia).
  assert (Hd : d <> 0) by (intros E; rewrite E in Hpp; lia).
  assert (HdP : product (d :: ds') <> 0) by (rewrite product_cons; lia).
  assert (Hk' : k mod product ds' = 0).
  { apply N.mod_divide in Hk; [|exact HdP]. destruct Hk as [q Hq].
    apply N.mod_divide; [exact HP|]. exists (q * d). rewrite Hq, product_cons. ring. }
  assert (Hal : forall i, (k + i * product ds') mod product ds' = 0).
  { intros i. rewrite N.mod_add by exact HP. exact Hk'. }
  induction c as [|c IHc]; intros i l Hc Hi Hl; [lia|].
  destruct (split_block l (product ds') c Hl) as (Hsplit & Lb & Lr).
  set (b := firstn (N.to_nat (product ds')) l) in *.
  set (rest := skipn (N.to_nat (product ds')) l) in *.
  cbn [blocks map]. fold b rest.
  destruct c as [|c'].
  - cbn [blocks map join]. rewrite app_nil_r.
    assert (rest = []) by (apply lenN_zero; rewrite Lr; lia).
    rewrite Hsplit. replace rest with (@nil A) by congruence. rewrite app_nil_r.
    apply IHds; [exact Lb|apply Hal].
  - assert (Hb : b <> []) by (intros E; rewrite E in Lb; cbn in Lb; lia).
    assert (Hr : rest <> []).
    { intros E. rewrite E in Lr. cbn [lenN] in Lr. rewrite Nat2N.inj_succ in Lr. nia. }
    rewrite Hsplit at 1. rewrite render_from_app by assumption.
    rewrite Lb. rewrite (IHds _ b Lb (Hal i)).
    replace (k + i * product ds' + product ds') with (k + (i + 1) * product ds') by ring.
    rewrite IHc; [|lia|lia|exact Lr].
    rewrite sep_boundary; [| exact Hp | apply Hal |].
    + cbn [blocks map join]. reflexivity.
    + apply N.mod_divide in Hk; [|exact HdP]. destruct Hk as [q Hq].
      rewrite Hq. rewrite N.add_comm, N.mod_add by exact HdP.
      rewrite product_cons. rewrite N.mod_small by nia. nia.
Qed.

Lemma nested_main : forall ds pre k l, positive (pre ++ ds) -> lenN l = product ds ->
  k mod product ds = 0 -> render_from (pre ++ ds) k l = nested ds l.
Proof.
  induction ds as [|d ds' IH]; intros pre k l Hp Hl Hk.
  - change (product []) with 1 in Hl. destruct l as [|x [|y l]]; cbn [lenN] in Hl; try lia. reflexivity.
  - cbn [nested].
    pose proof (positive_product _ Hp) as Hpp. rewrite product_app, product_cons in Hpp.
    assert (Hd : d <> 0) by (intros E; rewrite E in Hpp; lia).
    replace k with (k + 0 * product ds') at 1 by lia.
    apply (nested_blocks pre d ds' k Hp Hk).
    + intros k' b Lb Hk'.
      replace (pre ++ d :: ds') with ((pre ++ [d]) ++ ds') by (rewrite <- app_assoc; reflexivity).
      apply IH; [rewrite <- app_assoc; exact Hp|exact Lb|exact Hk'].
    + lia.
    + lia.
    + rewrite N2Nat.id. rewrite Hl, product_cons. reflexivity.
Qed.

Lemma render_nested ds l : positive ds -> N.of_nat (length l) = product ds -> render ds l = nested ds l.
Proof.
  intros Hp Hl. unfold render. apply (nested_main ds [] 0 l Hp).
  - rewrite lenN_length. exact Hl.
  - apply N.mod_0_l. pose proof (positive_product _ Hp). lia.
Qed.
End Elem.

Lemma write_nested {A} (t : tensor A) : wf t -> write t = Some (nested (dims t) (data t)).
Proof.
  intros Hw. rewrite (write_spec t Hw). destruct Hw as [Hp Hl]. rewrite (render_nested _ _ Hp Hl). reflexivity.
Qed.
