(** C19 — non-vacuity: concrete instances of every hypothesis used in [Properties.v], and the model
    run on literals (including the repository's own test vectors). *)
From Coq Require Import List NArith ZArith Bool Lia.
From RlibV Require Import C19.Model C19.Spec C19.Corr C19.Properties.
Import ListNotations.
Local Open Scope N_scope.

Definition t23 : tensor Z := mk [2; 3] [10; 11; 12; 13; 14; 15]%Z.
Definition t223 : tensor Z := mk [2; 2; 3] [0; 1; 2; 3; 4; 5; 6; 7; 8; 9; 10; 11]%Z.
Definition t0 : tensor Z := mk [] [7]%Z.

(** hypotheses [valid], [wf], [k < product ds], [product ds <> 0], decidable element equality *)
Example ex_valid : valid [2; 3] [1; 2].
Proof. repeat constructor. Qed.
Example ex_valid2 : valid [2; 3] [0; 1] /\ [0; 1] <> [1; 2].
Proof. split; [repeat constructor|discriminate]. Qed.
Example ex_valid_rank0 : valid [] [].
Proof. constructor. Qed.
Example ex_wf : wf t23 /\ wf t223 /\ wf t0.
Proof. repeat split; repeat constructor. Qed.
Example ex_offset_lt : 4 < product [2; 3] /\ product [2; 3] <> 0.
Proof. cbn. lia. Qed.
Example ex_not_in : ~ In 0 [2; 3] /\ N.of_nat (length [10; 11; 12; 13; 14; 15]%Z) = product [2; 3].
Proof. split; [cbn; intuition discriminate|reflexivity]. Qed.
Example ex_in_zero : In 0 [2; 0] /\ N.of_nat (length [1; 2; 3]%Z) <> product [2; 2].
Proof. split; [cbn; auto|cbn; lia]. Qed.
Example ex_eqb : forall x y : Z, Z.eqb x y = true <-> x = y.
Proof. exact Z.eqb_eq. Qed.
Example ex_wraps_hyp : (2 <= length [2; 2; 3])%nat /\ (product (skipn (length [2; 2; 3] - 2) [2; 2; 3]) | 6).
Proof. split; [cbn; lia|exists 1; reflexivity]. Qed.

Example ex_positive : positive [2; 3] /\ product [2; 3] <= 2 ^ 64 - 1.
Proof. split; [repeat constructor|cbn; lia]. Qed.
(** the checked loop does fire beyond the representable range (shape that no constructed tensor has) *)
Example run_get_index_chk : get_index_chk (2 ^ 64 - 1) [2 ^ 40; 2 ^ 40] [5; 5] = None /\
                            get_index_chk (2 ^ 64 - 1) [2; 3] [1; 2] = Some 5.
Proof. split; reflexivity. Qed.

(** the out-of-range premise, on the aliasing witness: shape [2,3], index [0,4]: the flattened offset
    0*3 + 4 = 4 is inside the storage (6 elements), still the access panics *)
Example ex_out_of_range :
  nth_error [0; 4] 1 = Some 4 /\ nth_error (dims t23) 1 = Some 3 /\ 3 <= 4 /\
  0 * 3 + 4 < product (dims t23) /\
  get_index (dims t23) [0; 4] = None /\ index t23 [0; 4] = None /\ index_mut t23 [0; 4] 99%Z = None.
Proof. cbn. repeat split; lia. Qed.
(** also in the first dimension, and with a huge coordinate *)
Example ex_out_of_range_first : index t23 [2; 0] = None /\ index t23 [18446744073709551615; 0] = None.
Proof. split; reflexivity. Qed.

(** the model on literals *)
Example run_get_index : get_index [2; 3] [1; 2] = Some 5 /\ get_index [3; 4; 5] [2; 3; 4] = Some 59 /\ get_index [] [] = Some 0.
Proof. repeat split. Qed.
Example run_index : index t23 [1; 1] = Some 14%Z /\ index t0 [] = Some 7%Z.
Proof. split; reflexivity. Qed.
Example run_set : match index_mut t23 [0; 1] 99%Z with
                  | Some t' => iter t' = [10; 99; 12; 13; 14; 15]%Z /\ index t' [0; 1] = Some 99%Z
                  | None => False
                  end.
Proof. cbn. split; reflexivity. Qed.
Example run_ctor : from_vec [2; 3] (data t23) = Some t23 /\ from_vec [2; 0] ([] : list Z) = None /\
                   from_slice [2; 3] [1; 2; 3; 4; 5]%Z = None /\ new [2; 2] 5%Z = Some (mk [2; 2] [5; 5; 5; 5]%Z) /\
                   new [0] 0%Z = None /\ from_vec [] [7]%Z = Some t0 /\ from_vec [] ([] : list Z) = None.
Proof. repeat split. Qed.
(** rlib/tensor/tests/tests.rs [output]: "0 1 2\n3 4 5\n\n6 7 8\n9 10 11" *)
Example run_write : write t223 =
  Some [E 0; Sp; E 1; Sp; E 2; Nl; E 3; Sp; E 4; Sp; E 5; Nl; Nl; E 6; Sp; E 7; Sp; E 8; Nl; E 9; Sp; E 10; Sp; E 11]%Z.
Proof. reflexivity. Qed.
Example run_nested : nested [2; 2; 3] (data t223) =
  [E 0; Sp; E 1; Sp; E 2; Nl; E 3; Sp; E 4; Sp; E 5; Nl; Nl; E 6; Sp; E 7; Sp; E 8; Nl; E 9; Sp; E 10; Sp; E 11]%Z.
Proof. reflexivity. Qed.
Example run_write_rank0 : write t0 = Some [E 7%Z].
Proof. reflexivity. Qed.
Example run_write_rank1 : write (mk [3] [1; 2; 3]%Z) = Some [E 1; Sp; E 2; Sp; E 3]%Z.
Proof. reflexivity. Qed.
Example run_write_extent1 : write (mk [2; 1] [1; 2]%Z) = Some [E 1; Nl; E 2]%Z.
Proof. reflexivity. Qed.
(** format!("{:?}") = "[[[0, 1, 2], [3, 4, 5]], [[6, 7, 8], [9, 10, 11]]]" *)
Example run_debug : debug t223 =
  Some [DOpen; DOpen; DOpen; DE 0; DComma; DE 1; DComma; DE 2; DClose; DComma; DOpen; DE 3; DComma; DE 4; DComma; DE 5;
        DClose; DClose; DComma; DOpen; DOpen; DE 6; DComma; DE 7; DComma; DE 8; DClose; DComma; DOpen; DE 9; DComma;
        DE 10; DComma; DE 11; DClose; DClose; DClose]%Z /\ debug t0 = Some [DE 7%Z].
Proof. split; reflexivity. Qed.
Example run_read : read [2; 2] [Nl; E 1; Sp; Sp; E 2; Nl; E 3; Sp; E 4; Nl; E 5]%Z = Some (mk [2; 2] [1; 2; 3; 4]%Z) /\
                   read [2; 2] [E 1; Sp; E 2; Nl; E 3]%Z = None /\ read [0; 2] [E 1%Z] = None.
Proof. repeat split. Qed.
Example run_roundtrip : match write t223 with Some out => read (dims t223) out = Some t223 | None => False end.
Proof. reflexivity. Qed.
(** the repaired defect: equal data, transposed shape *)
Example run_eq : eq Z.eqb t23 (mk [3; 2] (data t23)) = false /\ eq Z.eqb t23 t23 = true /\
                 eq Z.eqb t23 (mk [2; 3] [10; 11; 12; 13; 14; 16]%Z) = false.
Proof. repeat split. Qed.
(** a correspondence case, both checks *)
Example run_case :
  let c := Case [2; 3] FromVec [10; 11; 12; 13; 14; 15]%Z true
             [OGet [0; 3] None; OGetIndex [1; 2] (Some 5); OSet [0; 1] 99%Z true; OIter [10; 99; 12; 13; 14; 15]%Z;
              OEq [3; 2] [10; 99; 12; 13; 14; 15]%Z (Some false)] in
  model_check c = true /\ spec_check c = true.
Proof. split; reflexivity. Qed.
(** an aliasing implementation (element 13 returned for [0,3]) is rejected by both checks *)
Example run_case_alias :
  let c := Case [2; 3] FromVec [10; 11; 12; 13; 14; 15]%Z true [OGet [0; 3] (Some 13%Z)] in
  model_check c = false /\ spec_check c = false.
Proof. split; reflexivity. Qed.

(** [c19_checked_volume]: its three premises, and the checked constructors on the repaired witnesses (the element
    count of [2^63+1, 2] wraps to 2, that of [2^32, 2^32] to 0) *)
Example ex_checked_hyp : 0 < 2 ^ 64 - 1 /\ N.of_nat (length [7; 8]%Z) <= 2 ^ 64 - 1 /\ product [2; 3] <= 2 ^ 64 - 1 /\
                         2 ^ 64 - 1 < product [2 ^ 63 + 1; 2].
Proof. cbn. lia. Qed.
Example run_checked : from_vec_chk usize_max [2 ^ 63 + 1; 2] [7; 8]%Z = None /\
                      from_slice_chk usize_max [2 ^ 32; 2 ^ 32] ([] : list Z) = None /\
                      new_chk usize_max [2 ^ 32; 2 ^ 32] 0%Z = None /\
                      read_chk usize_max [2 ^ 63 + 1; 2] [E 7; Sp; E 8]%Z = None /\
                      from_vec_chk usize_max [2; 3] (data t23) = Some t23 /\
                      new_chk usize_max [2; 2] 5%Z = Some (mk [2; 2] [5; 5; 5; 5]%Z) /\
                      volume usize_max [2 ^ 32; 2 ^ 31; 2] = None /\ volume usize_max [2 ^ 32; 2 ^ 31] = Some (2 ^ 63).
Proof. repeat split. Qed.
Example run_case_overflow :
  let c := Case [2 ^ 63 + 1; 2] FromVec [7; 8]%Z false [] in
  let d := Case [2 ^ 63 + 1; 2] FromVec [7; 8]%Z true [OIter [7; 8]%Z] in
  let n := Case [2 ^ 32; 2 ^ 32] (New 0%Z) [] false [] in
  model_check c = true /\ spec_check c = true /\ model_check d = false /\ spec_check d = false /\
  model_check n = true /\ spec_check n = true.
Proof. repeat split. Qed.
(** [c19_iter_mut] *)
Example run_iter_mut : iter (iter_mut_assign t23 [1; 2; 3; 4; 5; 6]%Z) = [1; 2; 3; 4; 5; 6]%Z /\
                       iter (iter_mut_assign t23 [1; 2]%Z) = [1; 2; 12; 13; 14; 15]%Z /\
                       iter (iter_mut_assign t23 [1; 2; 3; 4; 5; 6; 7]%Z) = [1; 2; 3; 4; 5; 6]%Z /\
                       length [1; 2; 3; 4; 5; 6]%Z = length (iter t23).
Proof. repeat split. Qed.
Example run_case_iter_mut :
  let c := Case [2; 3] FromSlice [10; 11; 12; 13; 14; 15]%Z true
             [OIterMut [1; 2; 3; 4]%Z 6; OIter [1; 2; 3; 4; 14; 15]%Z; OGet [1; 0] (Some 4%Z)] in
  model_check c = true /\ spec_check c = true.
Proof. split; reflexivity. Qed.
