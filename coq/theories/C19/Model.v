(** C19 — executable model of [rlib/tensor/src/lib.rs] ([Tensor<T, D>]).

    Rank-generic: the shape is a [list N] of any length [D] (including 0), a multi-index is a
    [list N] (in Rust both are [[usize; D]], so they have the same length by typing; the model
    answers [None] when the lengths differ).  [None] always stands for a panic of the real code
    (failed [assert!], slice index out of bounds, [debug_assert!] of the reader at end of input),
    or — for [write_loop] only — for exhausted fuel, which the theorems exclude.
    Extents, indices and offsets are unbounded [N]: inside [get_index] this is exact for every constructed
    tensor ([c19_get_index_no_overflow], via the width-checked copy [gi_loop_chk]).  The element count of the
    constructors is the checked fold [volume] of the code ([try_fold] with [checked_mul], panic when Π dims does
    not fit into usize): [from_vec_chk], [from_slice_chk], [new_chk], [read_chk] take the largest representable
    value [W] and are what the correspondence cases run; the unbounded [from_vec], [from_slice], [new], [read]
    are what the theorems are stated about, and [c19_checked_volume] relates the two (equal whenever Π dims <= W,
    rejection otherwise; for from_vec / from_slice equal for every data vector whose length is representable).
    Elements are an arbitrary type [A].  Definitions only, no proofs. *)
From Coq Require Import List NArith Bool.
Import ListNotations.
Local Open Scope N_scope.

(** output of [Writable::write]: one token per element, [' '] and ['\n'] *)
Inductive tok (A : Type) := E (x : A) | Sp | Nl.
Arguments E {A} x.
Arguments Sp {A}.
Arguments Nl {A}.

(** output of the [Debug] impl: element, "[", "]", ", " *)
Inductive dtok (A : Type) := DE (x : A) | DOpen | DClose | DComma.
Arguments DE {A} x.
Arguments DOpen {A}.
Arguments DClose {A}.
Arguments DComma {A}.

Section Tensor.
Context {A : Type}.

Record tensor := mk { dims : list N; data : list A }.

(** [dims.iter().product::<usize>()] *)
Definition prod (l : list N) : N := fold_left N.mul l 1.
(** [dims.contains(&0)] *)
Definition contains0 (l : list N) : bool := existsb (N.eqb 0) l.
(** [data.len()] *)
Fixpoint lenN (l : list A) : N := match l with [] => 0 | _ :: r => N.succ (lenN r) end.
(** [data[k]] and [data[k] = v]; [None] = index out of bounds *)
Fixpoint nthN (l : list A) (k : N) : option A :=
  match l with
  | [] => None
  | x :: r => if k =? 0 then Some x else nthN r (N.pred k)
  end.
Fixpoint setN (l : list A) (k : N) (v : A) : option (list A) :=
  match l with
  | [] => None
  | x :: r => if k =? 0 then Some (v :: r)
              else match setN r (N.pred k) v with Some r' => Some (x :: r') | None => None end
  end.

(** constructors with the element count as the plain (unbounded) product: [assert!(!dims.contains(&0));
    assert_eq!(Π dims, data.len())] -- what the theorems are stated about; the code's checked count follows below *)
Definition from_vec (ds : list N) (l : list A) : option tensor :=
  if contains0 ds then None
  else if prod ds =? lenN l then Some (mk ds l) else None.
Definition from_slice (ds : list N) (l : list A) : option tensor :=
  if contains0 ds then None
  else if prod ds =? lenN l then Some (mk ds l) else None.
(** [vec![value; product]] *)
Definition new (ds : list N) (v : A) : option tensor :=
  if contains0 ds then None
  else Some (mk ds (N.iter (prod ds) (cons v) [])).

(** [volume(&dims)]: [dims.iter().try_fold(1usize, |acc, &d| acc.checked_mul(d)).expect(..)];
    [W] = usize::MAX, [None] = a partial product does not fit (panic) *)
Fixpoint vol_loop (W : N) (ds : list N) (acc : N) : option N :=
  match ds with
  | [] => Some acc
  | d :: r => if acc * d <=? W then vol_loop W r (acc * d) else None
  end.
Definition volume (W : N) (ds : list N) : option N := vol_loop W ds 1.
(** the constructors as written in the code: [assert!(!dims.contains(&0)); assert_eq!(volume(&dims), data.len())] *)
Definition from_vec_chk (W : N) (ds : list N) (l : list A) : option tensor :=
  if contains0 ds then None
  else match volume W ds with
       | Some n => if n =? lenN l then Some (mk ds l) else None
       | None => None
       end.
Definition from_slice_chk (W : N) (ds : list N) (l : list A) : option tensor :=
  if contains0 ds then None
  else match volume W ds with
       | Some n => if n =? lenN l then Some (mk ds l) else None
       | None => None
       end.
(** [vec![value; volume(&dims)]] *)
Definition new_chk (W : N) (ds : list N) (v : A) : option tensor :=
  if contains0 ds then None
  else match volume W ds with
       | Some n => Some (mk ds (N.iter n (cons v) []))
       | None => None
       end.

(** [get_index]: [for i in (0..D).rev() { assert!(idx[i] < dims[i]); result += sz * idx[i]; sz *= dims[i]; }]
    The loop runs over the reversed index and shape. *)
Fixpoint gi_loop (ridx rdims : list N) (result sz : N) : option N :=
  match ridx, rdims with
  | [], [] => Some result
  | i :: ridx', d :: rdims' =>
      if i <? d then gi_loop ridx' rdims' (result + sz * i) (sz * d) else None
  | _, _ => None
  end.
Definition get_index (ds idx : list N) : option N := gi_loop (rev idx) (rev ds) 0 1.

(** the same loop with every [usize] operation checked against the largest representable value [W]
    ([None] also when a product or sum would exceed it); [c19_get_index_no_overflow]: for a constructed
    tensor no check ever fires, so the unbounded [get_index] above is exact *)
Fixpoint gi_loop_chk (W : N) (ridx rdims : list N) (result sz : N) : option N :=
  match ridx, rdims with
  | [], [] => Some result
  | i :: ridx', d :: rdims' =>
      if i <? d then
        let a := sz * i in
        let r := result + a in
        let s := sz * d in
        if (a <=? W) && (r <=? W) && (s <=? W) then gi_loop_chk W ridx' rdims' r s else None
      else None
  | _, _ => None
  end.
Definition get_index_chk (W : N) (ds idx : list N) : option N := gi_loop_chk W (rev idx) (rev ds) 0 1.

(** [Index] / [IndexMut]: [&self.data[self.get_index(idx)]] *)
Definition index (t : tensor) (idx : list N) : option A :=
  match get_index (dims t) idx with
  | Some k => nthN (data t) k
  | None => None
  end.
Definition index_mut (t : tensor) (idx : list N) (v : A) : option tensor :=
  match get_index (dims t) idx with
  | Some k => match setN (data t) k v with Some l => Some (mk (dims t) l) | None => None end
  | None => None
  end.

Definition iter (t : tensor) : list A := data t.
(** [for (x, v) in t.iter_mut().zip(vs) { *x = v }]: the elements in storage order are overwritten by the
    values, as far as both last; the shape is untouched *)
Fixpoint zip_assign (l vs : list A) : list A :=
  match l, vs with
  | _ :: l', v :: vs' => v :: zip_assign l' vs'
  | _, _ => l
  end.
Definition iter_mut_assign (t : tensor) (vs : list A) : tensor := mk (dims t) (zip_assign (data t) vs).

(** [PartialEq]: [self.dims == other.dims && self.data == other.data] *)
Fixpoint list_eqb {X} (e : X -> X -> bool) (x y : list X) : bool :=
  match x, y with
  | [], [] => true
  | a :: x', b :: y' => e a b && list_eqb e x' y'
  | _, _ => false
  end.
Definition eq (e : A -> A -> bool) (t u : tensor) : bool :=
  list_eqb N.eqb (dims t) (dims u) && list_eqb e (data t) (data u).

(** [Iterator::rposition]: position (from the front) of the last element satisfying [p] *)
Fixpoint rposition {X} (p : X -> bool) (l : list X) : option nat :=
  match l with
  | [] => None
  | x :: r => match rposition p r with
              | Some k => Some (S k)
              | None => if p x then Some O else None
              end
  end.
(** [idx[pos] += 1; idx[pos + 1..].fill(0)] *)
Fixpoint bump (idx : list N) (pos : nat) : list N :=
  match idx, pos with
  | [], _ => []
  | i :: r, O => (i + 1) :: map (fun _ => 0) r
  | i :: r, S p => i :: bump r p
  end.
(** [if pos + 1 == D { ' ' } else { D - pos - 1 times '\n' }] *)
Definition seps (D pos : nat) : list (tok A) :=
  if Nat.eqb (pos + 1) D then [Sp] else repeat Nl (D - pos - 1).

(** The odometer loop of [Writable::write].  One iteration per element of [fuel] (structural
    recursion; [write] passes the element vector itself, whose length is the trip count):
    write [self[idx]]; find [pos]; emit the separator; advance [idx]; stop when no [pos]. *)
Fixpoint write_loop (fuel : list A) (t : tensor) (idx : list N) : option (list (tok A)) :=
  match fuel with
  | [] => None
  | _ :: fuel' =>
      match index t idx with
      | None => None
      | Some x =>
          match rposition (fun p => negb (fst p + 1 =? snd p)) (combine idx (dims t)) with
          | None => Some [E x]
          | Some pos =>
              match write_loop fuel' t (bump idx pos) with
              | Some out => Some (E x :: seps (length (dims t)) pos ++ out)
              | None => None
              end
          end
      end
  end.
Definition write (t : tensor) : option (list (tok A)) :=
  write_loop (data t) t (map (fun _ => 0) (dims t)).

(** [if pos + 1 == D { ", " } else { "]" * (D-pos-1); ", "; "[" * (D-pos-1) }] *)
Definition dseps (D pos : nat) : list (dtok A) :=
  if Nat.eqb (pos + 1) D then [DComma]
  else repeat DClose (D - pos - 1) ++ [DComma] ++ repeat DOpen (D - pos - 1).
(** the odometer loop of [Debug::fmt] (a second copy of the loop of [Writable::write]) *)
Fixpoint debug_loop (fuel : list A) (t : tensor) (idx : list N) : option (list (dtok A)) :=
  match fuel with
  | [] => None
  | _ :: fuel' =>
      match index t idx with
      | None => None
      | Some x =>
          match rposition (fun p => negb (fst p + 1 =? snd p)) (combine idx (dims t)) with
          | None => Some [DE x]
          | Some pos =>
              match debug_loop fuel' t (bump idx pos) with
              | Some out => Some (DE x :: dseps (length (dims t)) pos ++ out)
              | None => None
              end
          end
      end
  end.
(** ["[" * D; loop; "]" * D] *)
Definition debug (t : tensor) : option (list (dtok A)) :=
  match debug_loop (data t) t (map (fun _ => 0) (dims t)) with
  | Some out => Some (repeat DOpen (length (dims t)) ++ out ++ repeat DClose (length (dims t)))
  | None => None
  end.
(** [Reader::read_vec(n)]: each read skips whitespace and takes one token; at end of input the
    reader's [debug_assert!(read_something)] fails (debug profile) *)
Fixpoint read_vec (n : N) (toks : list (tok A)) : option (list A) :=
  if n =? 0 then Some []
  else match toks with
       | [] => None
       | E x :: r => match read_vec (N.pred n) r with Some l => Some (x :: l) | None => None end
       | _ :: r => read_vec n r
       end.
(** [Tensor::read] with the unbounded element count: [assert!(!dims.contains(&0)); reader.read_vec(Π dims)] *)
Definition read (ds : list N) (toks : list (tok A)) : option tensor :=
  if contains0 ds then None
  else match read_vec (prod ds) toks with Some l => Some (mk ds l) | None => None end.

(** [Tensor::read] as written in the code: [reader.read_vec(volume(&dims))] *)
Definition read_chk (W : N) (ds : list N) (toks : list (tok A)) : option tensor :=
  if contains0 ds then None
  else match volume W ds with
       | Some n => match read_vec n toks with Some l => Some (mk ds l) | None => None end
       | None => None
       end.

End Tensor.
Arguments tensor A : clear implicits.
