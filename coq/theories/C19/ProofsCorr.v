(** C19 — proofs: [model_check] and [spec_check] agree on every case. *)
From Coq Require Import List NArith ZArith Bool Lia.
From RlibV Require Import Common.Batch C19.Model C19.Spec C19.Corr.
From RlibV Require Import C19.ProofsBasic C19.ProofsIndex C19.ProofsTensor C19.ProofsWrite.
Import ListNotations.
Local Open Scope N_scope.

Lemma leqb_list_eqb {X} (e : X -> X -> bool) : forall a b, leqb e a b = list_eqb e a b.
Proof. induction a as [|x a IH]; intros [|y b]; cbn [leqb list_eqb]; try reflexivity; rewrite IH; reflexivity. Qed.
Lemma list_eqb_sym {X} (e : X -> X -> bool) (Hs : forall x y, e x y = e y x) :
  forall a b, list_eqb e a b = list_eqb e b a.
Proof. induction a as [|x a IH]; intros [|y b]; cbn [list_eqb]; try reflexivity. rewrite IH, Hs. reflexivity. Qed.
Lemma eq_sym_Z (t u : tensor Z) : eq Z.eqb u t = eq Z.eqb t u.
Proof.
  unfold eq. rewrite (list_eqb_sym N.eqb N.eqb_sym (dims u)), (list_eqb_sym Z.eqb Z.eqb_sym (data u)). reflexivity.
Qed.
Lemma eq_refl_Z (t : tensor Z) : eq Z.eqb t t = true.
Proof. apply (eq_iff Z.eqb Z.eqb_eq). split; reflexivity. Qed.

Lemma setN_update {A} (l : list A) v : forall k, k < lenN l ->
  setN l k v = Some (firstn (N.to_nat k) l ++ v :: skipn (S (N.to_nat k)) l).
Proof.
  induction l as [|x l IH]; intros k Hk; cbn [lenN] in Hk; [lia|]. cbn [setN].
  destruct (N.eqb_spec k 0) as [->|Hk0]; [reflexivity|].
  rewrite IH by lia. replace (N.to_nat k) with (S (N.to_nat (N.pred k))) by lia. reflexivity.
Qed.

Lemma read_vec_spec {A} (toks : list (tok A)) : forall n,
  read_vec n toks = if (N.to_nat n <=? length (elems toks))%nat
                    then Some (firstn (N.to_nat n) (elems toks)) else None.
Proof.
  induction toks as [|[x| |] toks IH]; intros n; cbn [read_vec elems].
  - destruct (N.eqb_spec n 0) as [->|Hn]; [reflexivity|].
    destruct (Nat.leb_spec (N.to_nat n) (@length A [])); [cbn [length] in *; lia|reflexivity].
  - destruct (N.eqb_spec n 0) as [->|Hn]; [reflexivity|].
    rewrite IH. replace (N.to_nat n) with (S (N.to_nat (N.pred n))) by lia.
    cbn [length Nat.leb firstn]. destruct (N.to_nat (N.pred n) <=? length (elems toks))%nat; reflexivity.
  - destruct (N.eqb_spec n 0) as [->|Hn]; [reflexivity|]. apply IH.
  - destruct (N.eqb_spec n 0) as [->|Hn]; [reflexivity|]. apply IH.
Qed.

Lemma contains0_positiveb ds : contains0 ds = negb (positiveb ds).
Proof.
  destruct (positiveb ds) eqn:P; cbn [negb].
  - apply contains0_false, positiveb_spec. exact P.
  - destruct (contains0 ds) eqn:E; [reflexivity|]. apply contains0_false, positiveb_spec in E. congruence.
Qed.

Lemma usize_max_pos : 0 < usize_max.
Proof. reflexivity. Qed.
(** a tensor the executor can hold: constructed, and its element count fits into usize *)
Definition wfW (t : tensor Z) : Prop := wf t /\ product (dims t) <= usize_max.

Lemma leb_nat_N n k : (N.to_nat n <=? k)%nat = (n <=? N.of_nat k).
Proof.
  destruct (Nat.leb_spec (N.to_nat n) k); destruct (N.leb_spec n (N.of_nat k)); try reflexivity; lia.
Qed.
Lemma zip_assign_s_assign (l vs : list Z) : zip_assign l vs = s_assign l vs.
Proof. exact (zip_assign_spec l vs). Qed.

Lemma m_roundtrip_spec (t : tensor Z) : wfW t -> m_roundtrip t = Some (true, data t).
Proof.
  intros [Hw HW]. unfold m_roundtrip. rewrite (write_spec t Hw), (read_chk_spec _ _ _ usize_max_pos).
  apply N.leb_le in HW. rewrite HW, (read_render t Hw), eq_refl_Z. reflexivity.
Qed.

Lemma m_op_s_op (t : tensor Z) o : wfW t -> m_op t o = s_op (dims t) (data t) o.
Proof.
  intros HwW. pose proof HwW as [Hw HW]. pose proof Hw as [Hp Hl].
  destruct o as [idx r|idx r|idx v ok|r|r|r|r|rdims toks r|edims edata r|r|vs cnt]; cbn [m_op s_op].
  - rewrite get_index_spec. destruct (validb (dims t) idx); reflexivity.
  - unfold index. rewrite get_index_spec. destruct (validb (dims t) idx) eqn:E; [|reflexivity].
    apply validb_spec in E. pose proof (offset_lt _ _ E) as Hlt.
    unfold s_lookup. rewrite nthN_nth_error.
    destruct (nth_error (data t) (N.to_nat (offset (dims t) idx))) as [x|] eqn:F.
    + destruct r; reflexivity.
    + apply nth_error_None in F. lia.
  - reflexivity.
  - reflexivity.
  - reflexivity.
  - rewrite (write_spec t Hw). reflexivity.
  - rewrite (m_roundtrip_spec t HwW). reflexivity.
  - rewrite (read_chk_spec _ _ _ usize_max_pos). unfold read, s_shape.
    rewrite contains0_positiveb, prod_product, read_vec_spec, leb_nat_N.
    destruct (positiveb rdims); cbn [negb andb]; [|destruct (product rdims <=? usize_max); reflexivity].
    destruct (product rdims <=? usize_max); cbn [andb]; [|reflexivity].
    destruct (product rdims <=? N.of_nat (length (elems toks))); reflexivity.
  - rewrite (from_vec_chk_spec _ _ _ usize_max_pos). unfold s_constructible, s_shape.
    destruct (positiveb edims && (product edims <=? usize_max) && (product edims =? N.of_nat (length edata))); [|reflexivity].
    rewrite (eq_sym_Z t (mk edims edata)), andb_diag. unfold eq, lNeqb, lZeqb. cbn [dims data]. reflexivity.
  - rewrite (debug_correct t Hw). reflexivity.
  - rewrite lenN_length. reflexivity.
Qed.

Lemma index_mut_spec (t : tensor Z) idx v : wf t ->
  index_mut t idx v = if validb (dims t) idx
                      then Some (mk (dims t) (s_update (data t) (offset (dims t) idx) v)) else None.
Proof.
  intros [Hp Hl]. unfold index_mut. rewrite get_index_spec.
  destruct (validb (dims t) idx) eqn:E; [|reflexivity].
  apply validb_spec in E. pose proof (offset_lt _ _ E) as Hlt.
  rewrite setN_update by (rewrite lenN_length; lia). reflexivity.
Qed.
Lemma s_update_length (l : list Z) k v : (N.to_nat k < length l)%nat -> length (s_update l k v) = length l.
Proof.
  intros H. unfold s_update. rewrite app_length. cbn [length]. rewrite firstn_length, skipn_length. lia.
Qed.

Lemma m_ops_s_ops ops : forall t : tensor Z, wfW t -> m_ops t ops = s_ops (dims t) (data t) ops.
Proof.
  induction ops as [|o ops IH]; intros t HwW; [reflexivity|]. pose proof HwW as [Hw HW].
  destruct o as [idx r|idx r|idx v ok|r|r|r|r|rdims toks r|edims edata r|r|vs cnt];
    try (cbn [m_ops s_ops]; rewrite (m_op_s_op t _ HwW), (IH t HwW); reflexivity).
  - cbn [m_ops s_ops]. rewrite (index_mut_spec t idx v Hw).
    destruct (validb (dims t) idx) eqn:E; [|rewrite (IH t HwW); reflexivity].
    rewrite IH; [reflexivity|].
    destruct Hw as [Hp Hl]. split; [|exact HW]. split; [exact Hp|]. cbn [dims data].
    apply validb_spec in E. pose proof (offset_lt _ _ E) as Hlt.
    rewrite s_update_length by lia. exact Hl.
  - cbn [m_ops s_ops]. rewrite (m_op_s_op t _ HwW). rewrite IH.
    + unfold iter_mut_assign. cbn [dims data]. rewrite zip_assign_s_assign. reflexivity.
    + destruct Hw as [Hp Hl]. split; [|exact HW]. split; [exact Hp|].
      unfold iter_mut_assign. cbn [dims data]. rewrite zip_assign_length. exact Hl.
Qed.

Theorem model_check_spec_check c : model_check c = spec_check c.
Proof.
  unfold model_check, spec_check, construct, s_initial, s_constructible, s_shape.
  destruct c as [ds ct l ok ops]. cbn [c_dims c_ctor c_data c_ok c_ops].
  destruct ct as [| |v].
  - rewrite (from_vec_chk_spec _ _ _ usize_max_pos).
    destruct (positiveb ds && (product ds <=? usize_max) && (product ds =? N.of_nat (length l))) eqn:E; [|reflexivity].
    rewrite m_ops_s_ops; [reflexivity|].
    apply andb_true_iff in E. destruct E as [E Q]. apply andb_true_iff in E. destruct E as [P B].
    apply positiveb_spec in P. apply N.eqb_eq in Q. apply N.leb_le in B.
    split; [|exact B]. split; [exact P|]. cbn [dims data]. lia.
  - rewrite (from_slice_chk_spec _ _ _ usize_max_pos).
    destruct (positiveb ds && (product ds <=? usize_max) && (product ds =? N.of_nat (length l))) eqn:E; [|reflexivity].
    rewrite m_ops_s_ops; [reflexivity|].
    apply andb_true_iff in E. destruct E as [E Q]. apply andb_true_iff in E. destruct E as [P B].
    apply positiveb_spec in P. apply N.eqb_eq in Q. apply N.leb_le in B.
    split; [|exact B]. split; [exact P|]. cbn [dims data]. lia.
  - rewrite (new_chk_spec _ _ _ usize_max_pos).
    destruct (positiveb ds && (product ds <=? usize_max)) eqn:E; [|reflexivity].
    rewrite m_ops_s_ops; [reflexivity|].
    apply andb_true_iff in E. destruct E as [P B]. apply positiveb_spec in P. apply N.leb_le in B.
    split; [|exact B]. split; [exact P|]. cbn [dims data]. rewrite repeat_length. lia.
Qed.
