(** C19 — property theorems (statements only; proofs in [Proofs*.v]).

    [get_index], [index], [index_mut], [from_vec], [from_slice], [new], [iter], [iter_mut_assign], [eq], [write], [read]
    (and the width-checked [from_vec_chk], [from_slice_chk], [new_chk], [read_chk])
    are the model of the Rust code ([Model.v]); [valid], [offset], [product], [unflatten], [render],
    [wraps], [elems], [wf] are plain arithmetic ([Spec.v]).  Every statement is for all ranks
    (the shape is a list of any length, including the empty one). *)
From Coq Require Import List NArith ZArith Bool.
From RlibV Require Import C19.Model C19.Spec C19.Corr.
From RlibV Require Import C19.ProofsBasic C19.ProofsIndex C19.ProofsTensor C19.ProofsWrite C19.ProofsNested C19.ProofsCorr.
Import ListNotations.
Local Open Scope N_scope.

(** on a valid multi-index [get_index] is the row-major formula Σ idx[i]·Π_{j>i} dims[j], inside the storage *)
Theorem c19_get_index_rowmajor : forall ds idx : list N, valid ds idx ->
  get_index ds idx = Some (offset ds idx) /\ offset ds idx < product ds.
Proof. exact get_index_rowmajor. Qed.

(** distinct valid multi-indices address distinct elements *)
Theorem c19_get_index_injective : forall ds idx1 idx2 : list N, valid ds idx1 -> valid ds idx2 ->
  get_index ds idx1 = get_index ds idx2 -> idx1 = idx2.
Proof. exact get_index_injective. Qed.

(** every offset below Π dims is addressed by exactly one valid multi-index *)
Theorem c19_get_index_surjective : forall (ds : list N) (k : N), k < product ds ->
  exists idx, valid ds idx /\ get_index ds idx = Some k /\
              forall idx', valid ds idx' -> get_index ds idx' = Some k -> idx' = idx.
Proof. exact get_index_surjective. Qed.

(** one coordinate at or beyond its extent: panic, whatever the other coordinates (and whatever the
    flattened offset would have been), for get_index, Index and IndexMut *)
Theorem c19_out_of_range_rejected : forall (A : Type) (t : tensor A) (idx : list N) (n : nat) (i d : N),
  nth_error idx n = Some i -> nth_error (dims t) n = Some d -> d <= i ->
  get_index (dims t) idx = None /\ index t idx = None /\ forall v, index_mut t idx v = None.
Proof. exact @index_out_of_range. Qed.

(** exactly the valid multi-indices are accepted *)
Theorem c19_get_index_total : forall ds idx : list N,
  get_index ds idx = if validb ds idx then Some (offset ds idx) else None.
Proof. exact get_index_spec. Qed.

(** no [usize] overflow inside get_index on a constructed tensor (whose Π dims = data.len() is
    representable), for valid and invalid indices alike: the width-checked loop equals the unbounded one *)
Theorem c19_get_index_no_overflow : forall (W : N) (ds idx : list N), positive ds -> product ds <= W ->
  get_index_chk W ds idx = get_index ds idx.
Proof. exact get_index_no_overflow. Qed.

(** constructors: a zero extent or a length different from Π dims panics; otherwise the tensor holds
    the given shape and the given elements unchanged *)
Theorem c19_constructors_reject : forall (A : Type) (ds : list N) (l : list A) (v : A),
  (In 0 ds -> from_vec ds l = None /\ from_slice ds l = None /\ new ds v = None) /\
  (N.of_nat (length l) <> product ds -> from_vec ds l = None /\ from_slice ds l = None) /\
  (~ In 0 ds -> N.of_nat (length l) = product ds ->
     from_vec ds l = Some (mk ds l) /\ from_slice ds l = Some (mk ds l) /\ wf (mk ds l)) /\
  (~ In 0 ds -> new ds v = Some (mk ds (repeat v (N.to_nat (product ds)))) /\
                wf (mk ds (repeat v (N.to_nat (product ds))))).
Proof. exact @constructors_reject. Qed.

(** the element count as the code computes it ([volume]: checked multiplication, [W] = usize::MAX): whenever the
    length of the data (from_vec, from_slice) resp. Π dims (new, read) is representable the checked constructors
    are the unbounded ones of the statements above and below; a shape whose Π dims exceeds [W] is rejected by all
    four, whatever the data (in particular data whose length equals the wrapped product) *)
Theorem c19_checked_volume : forall (A : Type) (W : N) (ds : list N) (l : list A) (v : A) (toks : list (tok A)), 0 < W ->
  (N.of_nat (length l) <= W -> from_vec_chk W ds l = from_vec ds l /\ from_slice_chk W ds l = from_slice ds l) /\
  (product ds <= W -> new_chk W ds v = new ds v /\ read_chk W ds toks = read ds toks) /\
  (W < product ds -> from_vec_chk W ds l = None /\ from_slice_chk W ds l = None /\
                     new_chk W ds v = None /\ read_chk W ds toks = None).
Proof. exact @checked_volume. Qed.

(** iter_mut visits the elements in storage order: assigning through it overwrites the front of the storage
    (all of it when as many values are supplied), the shape is untouched *)
Theorem c19_iter_mut : forall (A : Type) (t : tensor A) (vs : list A), wf t ->
  wf (iter_mut_assign t vs) /\ dims (iter_mut_assign t vs) = dims t /\
  iter (iter_mut_assign t vs) = firstn (length (iter t)) vs ++ skipn (length vs) (iter t) /\
  (length vs = length (iter t) -> iter (iter_mut_assign t vs) = vs).
Proof. exact @iter_mut_spec. Qed.

(** Index agrees with iteration order: t[idx] is the element of iter() at the row-major offset *)
Theorem c19_index_iter : forall (A : Type) (t : tensor A) (idx : list N), wf t -> valid (dims t) idx ->
  index t idx = nth_error (iter t) (N.to_nat (offset (dims t) idx)) /\ index t idx <> None.
Proof. exact @index_valid. Qed.

(** IndexMut then Index: the written element is read back, every other valid index is unchanged *)
Theorem c19_set_get : forall (A : Type) (t : tensor A) (idx : list N) (v : A), wf t -> valid (dims t) idx ->
  exists t', index_mut t idx v = Some t' /\ wf t' /\ dims t' = dims t /\
    index t' idx = Some v /\
    forall idx', valid (dims t) idx' -> idx' <> idx -> index t' idx' = index t idx'.
Proof. exact @set_get. Qed.

(** the odometer terminates and writes the elements in storage order, each once, with the separator
    [sep_spec] after the m-th element: ' ' when no trailing dimension is complete, otherwise one
    newline per complete trailing dimension ([wraps], characterised below) *)
Theorem c19_write_order : forall (A : Type) (t : tensor A), wf t ->
  write t = Some (render (dims t) (data t)) /\ elems (render (dims t) (data t)) = data t.
Proof. exact @write_order. Qed.

(** the same text read as nested structure: a tensor of shape d :: ds' is written as its d sub-tensors of
    shape ds' in order, joined by ' ' when ds' = [] (inside a row) and by length ds' newlines otherwise;
    rank 0 is the single element *)
Theorem c19_write_nested : forall (A : Type) (t : tensor A), wf t ->
  write t = Some (nested (dims t) (data t)).
Proof. exact @write_nested. Qed.

(** the Debug text is produced by the same odometer: D opening brackets, the elements in storage order
    with "]"*c ", " "["*c after the m-th one (c = [wraps] = completed trailing dimensions), D closing brackets *)
Theorem c19_debug_order : forall (A : Type) (t : tensor A), wf t ->
  debug t = Some (debug_spec (dims t) (data t)).
Proof. exact @debug_correct. Qed.

(** [wraps ds m] = the largest c such that the product of the last c extents divides m *)
Theorem c19_wraps_char : forall ds : list N, product ds <> 0 -> forall (m : N) (c : nat), (c <= length ds)%nat ->
  ((c <= wraps ds m)%nat <-> (product (skipn (length ds - c) ds) | m)).
Proof. exact wraps_char. Qed.

(** one turn of the odometer on a valid index: either it was the last index, or the next index is the
    successor in row-major order and the separator consists of D - pos - 1 = wraps newlines (' ' if 0) *)
Theorem c19_odometer_step : forall ds idx : list N, valid ds idx ->
  match rposition (fun p => negb (fst p + 1 =? snd p)) (combine idx ds) with
  | None => offset ds idx + 1 = product ds
  | Some pos =>
      (pos < length ds)%nat /\ valid ds (bump idx pos) /\
      offset ds (bump idx pos) = offset ds idx + 1 /\
      offset ds idx + 1 < product ds /\
      wraps ds (offset ds idx + 1) = (length ds - pos - 1)%nat
  end.
Proof. exact odometer_step. Qed.

(** writing a tensor and reading the text back with the same shape gives the same tensor *)
Theorem c19_write_read_roundtrip : forall (A : Type) (t : tensor A), wf t ->
  exists out, write t = Some out /\ read (dims t) out = Some t.
Proof. exact @write_read_roundtrip. Qed.

(** tensors compare equal only when both shape and elements agree *)
Theorem c19_eq_iff : forall (A : Type) (e : A -> A -> bool), (forall x y, e x y = true <-> x = y) ->
  forall t u : tensor A, eq e t u = true <-> dims t = dims u /\ data t = data u.
Proof. exact @eq_iff. Qed.

(** the two per-case checks of the correspondence batches agree: what holds of the model on a case
    holds of the row-major specification *)
Theorem c19_model_check_spec_check : forall c : case, model_check c = spec_check c.
Proof. exact model_check_spec_check. Qed.
