(** C19 — property theorems (statements only; proofs in [Proofs*.v]). *)
From Coq Require Import List NArith ZArith Bool.
From RlibV Require Import C19.Model C19.Spec.
Import ListNotations.
Local Open Scope N_scope.
