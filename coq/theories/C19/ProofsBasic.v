(** C19 — proofs: products, positivity, list access by [N] offsets. *)
From Coq Require Import List NArith ZArith Bool Lia.
From RlibV Require Import C19.Model C19.Spec.
Import ListNotations.
Local Open Scope N_scope.

(* ---------------------------------------------------------------- basic list / N facts *)
Lemma fold_left_mul l : forall a, fold_left N.mul l a = a * product l.
Proof.
  induction l as [|d l IH]; intros a; cbn [fold_left]; [cbn; lia|].
  rewrite IH. change (product (d :: l)) with (d * product l). ring.
Qed.
Lemma prod_product l : prod l = product l.
Proof. unfold prod. rewrite fold_left_mul. lia. Qed.

Lemma product_cons d l : product (d :: l) = d * product l.
Proof. reflexivity. Qed.
Lemma product_app l1 l2 : product (l1 ++ l2) = product l1 * product l2.
Proof.
  induction l1 as [|d l IH]; [cbn [app]; change (product []) with 1; lia|].
  cbn [app]. rewrite !product_cons, IH. ring.
Qed.
Lemma product_rev l : product (rev l) = product l.
Proof. induction l as [|d l IH]; [reflexivity|]. cbn [rev]. rewrite product_app, IH, !product_cons. change (product []) with 1. ring. Qed.

Lemma positive_product ds : positive ds -> 0 < product ds.
Proof.
  induction 1 as [|d ds Hd _ IH]; [cbn; lia|]. rewrite product_cons. nia.
Qed.
Lemma positiveb_spec ds : positiveb ds = true <-> positive ds.
Proof.
  unfold positiveb, positive. rewrite forallb_forall, Forall_forall.
  split; intros H x Hx; specialize (H x Hx); [apply N.ltb_lt|apply N.ltb_lt]; exact H.
Qed.
Lemma contains0_spec ds : contains0 ds = true <-> In 0 ds.
Proof.
  unfold contains0. rewrite existsb_exists. split.
  - intros [x [Hx He]]. apply N.eqb_eq in He. subst x. exact Hx.
  - intros H. exists 0. split; [exact H|reflexivity].
Qed.
Lemma contains0_false ds : contains0 ds = false <-> positive ds.
Proof.
  unfold positive. rewrite Forall_forall. split.
  - intros H x Hx. destruct (N.eq_dec x 0) as [->|Hn]; [|lia].
    apply contains0_spec in Hx. congruence.
  - intros H. destruct (contains0 ds) eqn:E; [|reflexivity].
    apply contains0_spec in E. specialize (H 0 E). lia.
Qed.
Lemma positive_not_in ds : positive ds <-> ~ In 0 ds.
Proof.
  rewrite <- contains0_false, <- contains0_spec. destruct (contains0 ds); split; congruence.
Qed.

Section Lists.
Context {A : Type}.
Lemma lenN_length (l : list A) : lenN l = N.of_nat (length l).
Proof. induction l as [|x l IH]; [reflexivity|]. cbn [lenN length]. rewrite IH. lia. Qed.
Lemma lenN_app (l1 l2 : list A) : lenN (l1 ++ l2) = lenN l1 + lenN l2.
Proof. rewrite !lenN_length, app_length. lia. Qed.

Lemma nthN_nth_error (l : list A) : forall k, nthN l k = nth_error l (N.to_nat k).
Proof.
  induction l as [|x l IH]; intros k; cbn [nthN].
  - destruct (N.to_nat k); reflexivity.
  - destruct (N.eqb_spec k 0) as [->|Hk]; [reflexivity|].
    rewrite IH. replace (N.to_nat k) with (S (N.to_nat (N.pred k))) by lia. reflexivity.
Qed.
Lemma nthN_app_len (pre : list A) x suf : nthN (pre ++ x :: suf) (lenN pre) = Some x.
Proof.
  rewrite nthN_nth_error, lenN_length, Nat2N.id. rewrite nth_error_app2 by lia.
  rewrite Nat.sub_diag. reflexivity.
Qed.
Lemma nthN_some (l : list A) k : k < lenN l -> exists x, nthN l k = Some x.
Proof.
  rewrite nthN_nth_error, lenN_length. intros H.
  destruct (nth_error l (N.to_nat k)) eqn:E; [eauto|].
  apply nth_error_None in E. lia.
Qed.

Lemma setN_some (l : list A) v : forall k, k < lenN l -> exists l', setN l k v = Some l'.
Proof.
  induction l as [|x l IH]; intros k Hk; cbn [setN lenN] in *; [lia|].
  destruct (N.eqb_spec k 0) as [->|Hk0]; [eauto|].
  assert (Hp : N.pred k < lenN l) by lia. destruct (IH _ Hp) as [l' ->]. eauto.
Qed.
Lemma setN_spec (l : list A) v : forall k l', setN l k v = Some l' ->
  nthN l' k = Some v /\ (forall j, j <> k -> nthN l' j = nthN l j) /\ lenN l' = lenN l.
Proof.
  induction l as [|x l IH]; intros k l' H; cbn [setN] in H; [discriminate|].
  destruct (N.eqb_spec k 0) as [->|Hk0].
  - inversion H; subst l'. cbn [nthN lenN]. split; [reflexivity|split; [|reflexivity]].
    intros j Hj. destruct (N.eqb_spec j 0); [congruence|reflexivity].
  - destruct (setN l (N.pred k) v) as [r'|] eqn:E; [|discriminate].
    inversion H; subst l'. destruct (IH _ _ E) as (H1 & H2 & H3).
    cbn [nthN lenN]. destruct (N.eqb_spec k 0); [congruence|]. split; [exact H1|split; [|lia]].
    intros j Hj. destruct (N.eqb_spec j 0); [reflexivity|]. apply H2. lia.
Qed.
Lemma setN_none (l : list A) v : forall k, lenN l <= k -> setN l k v = None.
Proof.
  induction l as [|x l IH]; intros k Hk; cbn [setN lenN] in *; [reflexivity|].
  destruct (N.eqb_spec k 0) as [->|Hk0]; [lia|]. rewrite IH by lia. reflexivity.
Qed.

Lemma iter_cons_repeat (v : A) n : N.iter n (cons v) [] = repeat v (N.to_nat n).
Proof.
  induction n as [|n IH] using N.peano_ind; [reflexivity|].
  rewrite N.iter_succ, IH, N2Nat.inj_succ. reflexivity.
Qed.
End Lists.
