(** C19 — proofs: constructors, Index/IndexMut, equality. *)
From Coq Require Import List NArith ZArith Bool Lia.
From RlibV Require Import C19.Model C19.Spec.
From RlibV Require Import C19.ProofsBasic C19.ProofsIndex.
Import ListNotations.
Local Open Scope N_scope.

(* ---------------------------------------------------------------- the checked element count *)
(** ([0 < W]: the fold starts from the representable value 1) *)
Lemma vol_loop_spec W ds : positive ds -> forall acc, acc <= W ->
  vol_loop W ds acc = if acc * product ds <=? W then Some (acc * product ds) else None.
Proof.
  induction 1 as [|d ds Hd Hp IH]; intros acc Hacc; cbn [vol_loop].
  - change (product []) with 1. rewrite N.mul_1_r. apply N.leb_le in Hacc. rewrite Hacc. reflexivity.
  - rewrite product_cons. pose proof (positive_product ds Hp) as Hpos.
    destruct (N.leb_spec (acc * d) W) as [Hle|Hgt].
    + rewrite (IH _ Hle). rewrite <- N.mul_assoc. reflexivity.
    + destruct (N.leb_spec (acc * (d * product ds)) W) as [Hle2|_]; [|reflexivity]. nia.
Qed.
Lemma volume_spec W ds : 0 < W -> positive ds ->
  volume W ds = if product ds <=? W then Some (product ds) else None.
Proof. intros HW H. unfold volume. rewrite (vol_loop_spec W ds H 1) by lia. rewrite N.mul_1_l. reflexivity. Qed.

Section Elem.
Context {A : Type}.
Implicit Types (t u : tensor A) (l : list A).

(* ---------------------------------------------------------------- constructors *)
Lemma from_vec_spec ds l :
  from_vec ds l = if positiveb ds && (product ds =? N.of_nat (length l)) then Some (mk ds l) else None.
Proof.
  unfold from_vec. rewrite prod_product, lenN_length.
  destruct (contains0 ds) eqn:E.
  - destruct (positiveb ds) eqn:P; [|reflexivity].
    apply positiveb_spec, contains0_false in P. congruence.
  - apply contains0_false, positiveb_spec in E. rewrite E. reflexivity.
Qed.
Lemma from_slice_spec ds l :
  from_slice ds l = if positiveb ds && (product ds =? N.of_nat (length l)) then Some (mk ds l) else None.
Proof. exact (from_vec_spec ds l). Qed.
Lemma new_spec ds (v : A) :
  new ds v = if positiveb ds then Some (mk ds (repeat v (N.to_nat (product ds)))) else None.
Proof.
  unfold new. rewrite prod_product, iter_cons_repeat.
  destruct (contains0 ds) eqn:E.
  - destruct (positiveb ds) eqn:P; [|reflexivity].
    apply positiveb_spec, contains0_false in P. congruence.
  - apply contains0_false, positiveb_spec in E. rewrite E. reflexivity.
Qed.

Lemma constructors_reject ds l (v : A) :
  (In 0 ds -> from_vec ds l = None /\ from_slice ds l = None /\ new ds v = None) /\
  (N.of_nat (length l) <> product ds -> from_vec ds l = None /\ from_slice ds l = None) /\
  (~ In 0 ds -> N.of_nat (length l) = product ds ->
     from_vec ds l = Some (mk ds l) /\ from_slice ds l = Some (mk ds l) /\ wf (mk ds l)) /\
  (~ In 0 ds -> new ds v = Some (mk ds (repeat v (N.to_nat (product ds)))) /\
                wf (mk ds (repeat v (N.to_nat (product ds))))).
Proof.
  rewrite from_slice_spec, from_vec_spec, new_spec.
  split; [|split; [|split]].
  - intros H. destruct (positiveb ds) eqn:P; [|auto].
    apply positiveb_spec, positive_not_in in P. contradiction.
  - intros H. destruct (N.eqb_spec (product ds) (N.of_nat (length l))); [congruence|].
    rewrite andb_false_r. auto.
  - intros H E. apply positive_not_in in H. pose proof H as P. apply positiveb_spec in P.
    rewrite P, E, N.eqb_refl. cbn [andb]. repeat split; [exact H|exact E].
  - intros H. apply positive_not_in in H. pose proof H as P. apply positiveb_spec in P. rewrite P.
    split; [reflexivity|]. split; [exact H|]. cbn [data dims]. rewrite repeat_length. lia.
Qed.

(** the constructors with the checked element count of the code *)
Lemma from_vec_chk_spec W ds l : 0 < W ->
  from_vec_chk W ds l = if positiveb ds && (product ds <=? W) && (product ds =? N.of_nat (length l))
                        then Some (mk ds l) else None.
Proof.
  intros HW. unfold from_vec_chk. rewrite lenN_length.
  destruct (contains0 ds) eqn:E.
  - destruct (positiveb ds) eqn:P; [|reflexivity].
    apply positiveb_spec, contains0_false in P. congruence.
  - apply contains0_false in E. rewrite (volume_spec W ds HW E). apply positiveb_spec in E. rewrite E. cbn [andb].
    destruct (product ds <=? W); reflexivity.
Qed.
Lemma from_slice_chk_spec W ds l : 0 < W ->
  from_slice_chk W ds l = if positiveb ds && (product ds <=? W) && (product ds =? N.of_nat (length l))
                          then Some (mk ds l) else None.
Proof. exact (from_vec_chk_spec W ds l). Qed.
Lemma new_chk_spec W ds (v : A) : 0 < W ->
  new_chk W ds v = if positiveb ds && (product ds <=? W) then Some (mk ds (repeat v (N.to_nat (product ds)))) else None.
Proof.
  intros HW. unfold new_chk.
  destruct (contains0 ds) eqn:E.
  - destruct (positiveb ds) eqn:P; [|reflexivity].
    apply positiveb_spec, contains0_false in P. congruence.
  - apply contains0_false in E. rewrite (volume_spec W ds HW E). apply positiveb_spec in E. rewrite E. cbn [andb].
    destruct (product ds <=? W); [rewrite iter_cons_repeat|]; reflexivity.
Qed.
Lemma read_chk_spec W ds (toks : list (tok A)) : 0 < W ->
  read_chk W ds toks = if product ds <=? W then read ds toks else None.
Proof.
  intros HW. unfold read_chk, read. destruct (contains0 ds) eqn:E; [destruct (product ds <=? W); reflexivity|].
  apply contains0_false in E. rewrite (volume_spec W ds HW E), prod_product.
  destruct (product ds <=? W); reflexivity.
Qed.

(** checked and unbounded element count: the same answer whenever the data length (from_vec, from_slice) or
    Π dims (new, read) is representable; a shape with Π dims > W is rejected by all four *)
Lemma checked_volume W ds l (v : A) (toks : list (tok A)) : 0 < W ->
  (N.of_nat (length l) <= W -> from_vec_chk W ds l = from_vec ds l /\ from_slice_chk W ds l = from_slice ds l) /\
  (product ds <= W -> new_chk W ds v = new ds v /\ read_chk W ds toks = read ds toks) /\
  (W < product ds -> from_vec_chk W ds l = None /\ from_slice_chk W ds l = None /\
                     new_chk W ds v = None /\ read_chk W ds toks = None).
Proof.
  intros HW.
  rewrite (from_slice_chk_spec W ds l HW), (from_vec_chk_spec W ds l HW), (new_chk_spec W ds v HW), (read_chk_spec W ds toks HW),
    from_slice_spec, from_vec_spec, new_spec.
  split; [|split].
  - intros Hl. destruct (N.leb_spec (product ds) W) as [Hle|Hgt]; [rewrite andb_true_r; auto|].
    destruct (N.eqb_spec (product ds) (N.of_nat (length l))) as [E|_]; [lia|].
    rewrite !andb_false_r. auto.
  - intros Hle. apply N.leb_le in Hle. rewrite Hle, andb_true_r. auto.
  - intros Hgt. destruct (N.leb_spec (product ds) W) as [Hle|_]; [lia|].
    rewrite andb_false_r. cbn [andb]. auto.
Qed.

(* ---------------------------------------------------------------- Index / IndexMut / iter *)
Lemma index_valid t idx : wf t -> valid (dims t) idx ->
  index t idx = nth_error (iter t) (N.to_nat (offset (dims t) idx)) /\ index t idx <> None.
Proof.
  intros [Hp Hl] Hv. unfold index, iter. rewrite get_index_spec.
  pose proof Hv as Hb. apply validb_spec in Hb. rewrite Hb.
  rewrite nthN_nth_error. split; [reflexivity|].
  apply nth_error_Some. pose proof (offset_lt _ _ Hv). lia.
Qed.

Lemma index_out_of_range t idx n i d :
  nth_error idx n = Some i -> nth_error (dims t) n = Some d -> d <= i ->
  get_index (dims t) idx = None /\ index t idx = None /\ forall v, index_mut t idx v = None.
Proof.
  intros Hi Hd Hle. unfold index, index_mut. rewrite get_index_spec.
  rewrite (validb_out_of_range _ _ _ _ _ Hi Hd Hle). auto.
Qed.

Lemma set_get t idx v : wf t -> valid (dims t) idx ->
  exists t', index_mut t idx v = Some t' /\ wf t' /\ dims t' = dims t /\
    index t' idx = Some v /\
    forall idx', valid (dims t) idx' -> idx' <> idx -> index t' idx' = index t idx'.
Proof.
  intros [Hp Hl] Hv. unfold index_mut, index. rewrite get_index_spec.
  pose proof Hv as Hb. apply validb_spec in Hb. rewrite Hb.
  pose proof (offset_lt _ _ Hv) as Hlt.
  destruct (setN_some (data t) v (offset (dims t) idx)) as [l' Hs]; [rewrite lenN_length; lia|].
  rewrite Hs. destruct (setN_spec _ _ _ _ Hs) as (G1 & G2 & G3).
  exists (mk (dims t) l'). cbn [dims data]. split; [reflexivity|]. split; [|split; [reflexivity|]].
  - split; [exact Hp|]. cbn [dims data]. rewrite !lenN_length in G3. lia.
  - rewrite get_index_spec, Hb. split; [exact G1|].
    intros idx' Hv' Hne. rewrite get_index_spec.
    pose proof Hv' as Hb'. apply validb_spec in Hb'. rewrite Hb'. apply G2.
    intros E. apply Hne. apply (offset_inj (dims t)); assumption.
Qed.

(* ---------------------------------------------------------------- iter_mut *)
Lemma zip_assign_spec l : forall vs, zip_assign l vs = firstn (length l) vs ++ skipn (length vs) l.
Proof.
  induction l as [|x l IH]; intros [|v vs]; cbn [zip_assign length firstn skipn app]; try reflexivity.
  rewrite IH. reflexivity.
Qed.
Lemma zip_assign_length l : forall vs, length (zip_assign l vs) = length l.
Proof. induction l as [|x l IH]; intros [|v vs]; cbn [zip_assign length]; try reflexivity. rewrite IH. reflexivity. Qed.
Lemma iter_mut_spec t vs : wf t ->
  wf (iter_mut_assign t vs) /\ dims (iter_mut_assign t vs) = dims t /\
  iter (iter_mut_assign t vs) = firstn (length (iter t)) vs ++ skipn (length vs) (iter t) /\
  (length vs = length (iter t) -> iter (iter_mut_assign t vs) = vs).
Proof.
  intros [Hp Hl]. unfold iter_mut_assign, iter. cbn [dims data]. split; [|split; [reflexivity|split]].
  - split; [exact Hp|]. cbn [dims data]. rewrite zip_assign_length. exact Hl.
  - apply zip_assign_spec.
  - intros E. rewrite zip_assign_spec, E, skipn_all, <- E, firstn_all. apply app_nil_r.
Qed.

(* ---------------------------------------------------------------- equality *)
Lemma list_eqb_spec {X} (e : X -> X -> bool) (He : forall x y, e x y = true <-> x = y) :
  forall a b : list X, list_eqb e a b = true <-> a = b.
Proof.
  induction a as [|x a IH]; intros [|y b]; cbn [list_eqb]; try (split; [discriminate|congruence]).
  - split; reflexivity.
  - rewrite andb_true_iff, He, IH. split; [intros [-> ->]; reflexivity|intros H; inversion H; auto].
Qed.
Lemma eq_iff (e : A -> A -> bool) (He : forall x y, e x y = true <-> x = y) t u :
  eq e t u = true <-> dims t = dims u /\ data t = data u.
Proof.
  unfold eq. rewrite andb_true_iff, (list_eqb_spec N.eqb N.eqb_eq), (list_eqb_spec e He). reflexivity.
Qed.
Lemma tensor_eta t : t = mk (dims t) (data t).
Proof. destruct t; reflexivity. Qed.
End Elem.
