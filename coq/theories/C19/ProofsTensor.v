(** C19 — proofs: constructors, Index/IndexMut, equality. *)
From Coq Require Import List NArith ZArith Bool Lia.
From RlibV Require Import C19.Model C19.Spec.
From RlibV Require Import C19.ProofsBasic C19.ProofsIndex.
Import ListNotations.
Local Open Scope N_scope.

Section Elem.
Context {A : Type}.
Implicit Types (t u : tensor A) (l : list A).

(* ---------------------------------------------------------------- constructors *)
Lemma from_vec_spec ds l :
  from_vec ds l = if positiveb ds && (product ds =? N.of_nat (length l)) then Some (mk ds l) else None.
Proof.
  unfold from_vec. rewrite prod_product, lenN_length.
  destruct (contains0 ds) eqn:E.
  - destruct (positiveb ds) eqn:P; [|reflexivity].
    apply positiveb_spec, contains0_false in P. congruence.
  - apply contains0_false, positiveb_spec in E. rewrite E. reflexivity.
Qed.
Lemma from_slice_spec ds l :
  from_slice ds l = if positiveb ds && (product ds =? N.of_nat (length l)) then Some (mk ds l) else None.
Proof. exact (from_vec_spec ds l). Qed.
Lemma new_spec ds (v : A) :
  new ds v = if positiveb ds then Some (mk ds (repeat v (N.to_nat (product ds)))) else None.
Proof.
  unfold new. rewrite prod_product, iter_cons_repeat.
  destruct (contains0 ds) eqn:E.
  - destruct (positiveb ds) eqn:P; [|reflexivity].
    apply positiveb_spec, contains0_false in P. congruence.
  - apply contains0_false, positiveb_spec in E. rewrite E. reflexivity.
Qed.

Lemma constructors_reject ds l (v : A) :
  (In 0 ds -> from_vec ds l = None /\ from_slice ds l = None /\ new ds v = None) /\
  (N.of_nat (length l) <> product ds -> from_vec ds l = None /\ from_slice ds l = None) /\
  (~ In 0 ds -> N.of_nat (length l) = product ds ->
     from_vec ds l = Some (mk ds l) /\ from_slice ds l = Some (mk ds l) /\ wf (mk ds l)) /\
  (~ In 0 ds -> new ds v = Some (mk ds (repeat v (N.to_nat (product ds)))) /\
                wf (mk ds (repeat v (N.to_nat (product ds))))).
Proof.
  rewrite from_slice_spec, from_vec_spec, new_spec.
  split; [|split; [|split]].
  - intros H. destruct (positiveb ds) eqn:P; [|auto].
    apply positiveb_spec, positive_not_in in P. contradiction.
  - intros H. destruct (N.eqb_spec (product ds) (N.of_nat (length l))); [congruence|].
    rewrite andb_false_r. auto.
  - intros H E. apply positive_not_in in H. pose proof H as P. apply positiveb_spec in P.
    rewrite P, E, N.eqb_refl. cbn [andb]. repeat split; [exact H|exact E].
  - intros H. apply positive_not_in in H. pose proof H as P. apply positiveb_spec in P. rewrite P.
    split; [reflexivity|]. split; [exact H|]. cbn [data dims]. rewrite repeat_length. lia.
Qed.

(* ---------------------------------------------------------------- Index / IndexMut / iter *)
Lemma index_valid t idx : wf t -> valid (dims t) idx ->
  index t idx = nth_error (iter t) (N.to_nat (offset (dims t) idx)) /\ index t idx <> None.
Proof.
  intros [Hp Hl] Hv. unfold index, iter. rewrite get_index_spec.
  pose proof Hv as Hb. apply validb_spec in Hb. rewrite Hb.
  rewrite nthN_nth_error. split; [reflexivity|].
  apply nth_error_Some. pose proof (offset_lt _ _ Hv). lia.
Qed.

Lemma index_out_of_range t idx n i d :
  nth_error idx n = Some i -> nth_error (dims t) n = Some d -> d <= i ->
  get_index (dims t) idx = None /\ index t idx = None /\ forall v, index_mut t idx v = None.
Proof.
  intros Hi Hd Hle. unfold index, index_mut. rewrite get_index_spec.
  rewrite (validb_out_of_range _ _ _ _ _ Hi Hd Hle). auto.
Qed.

Lemma set_get t idx v : wf t -> valid (dims t) idx ->
  exists t', index_mut t idx v = Some t' /\ wf t' /\ dims t' = dims t /\
    index t' idx = Some v /\
    forall idx', valid (dims t) idx' -> idx' <> idx -> index t' idx' = index t idx'.
Proof.
  intros [Hp Hl] Hv. unfold index_mut, index. rewrite get_index_spec.
  pose proof Hv as Hb. apply validb_spec in Hb. rewrite Hb.
  pose proof (offset_lt _ _ Hv) as Hlt.
  destruct (setN_some (data t) v (offset (dims t) idx)) as [l' Hs]; [rewrite lenN_length; lia|].
  rewrite Hs. destruct (setN_spec _ _ _ _ Hs) as (G1 & G2 & G3).
  exists (mk (dims t) l'). cbn [dims data]. split; [reflexivity|]. split; [|split; [reflexivity|]].
  - split; [exact Hp|]. cbn [dims data]. rewrite !lenN_length in G3. lia.
  - rewrite get_index_spec, Hb. split; [exact G1|].
    intros idx' Hv' Hne. rewrite get_index_spec.
    pose proof Hv' as Hb'. apply validb_spec in Hb'. rewrite Hb'. apply G2.
    intros E. apply Hne. apply (offset_inj (dims t)); assumption.
Qed.

(* ---------------------------------------------------------------- equality *)
Lemma list_eqb_spec {X} (e : X -> X -> bool) (He : forall x y, e x y = true <-> x = y) :
  forall a b : list X, list_eqb e a b = true <-> a = b.
Proof.
  induction a as [|x a IH]; intros [|y b]; cbn [list_eqb]; try (split; [discriminate|congruence]).
  - split; reflexivity.
  - rewrite andb_true_iff, He, IH. split; [intros [-> ->]; reflexivity|intros H; inversion H; auto].
Qed.
Lemma eq_iff (e : A -> A -> bool) (He : forall x y, e x y = true <-> x = y) t u :
  eq e t u = true <-> dims t = dims u /\ data t = data u.
Proof.
  unfold eq. rewrite andb_true_iff, (list_eqb_spec N.eqb N.eqb_eq), (list_eqb_spec e He). reflexivity.
Qed.
Lemma tensor_eta t : t = mk (dims t) (data t).
Proof. destruct t; reflexivity. Qed.
End Elem.
