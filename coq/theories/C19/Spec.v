(** C19 — the specification side: plain row-major arithmetic, written without reference to the
    model ([Model.v]).  Used by [spec_check] and by the statements in [Properties.v]. *)
From Coq Require Import List NArith Bool.
From RlibV Require Import C19.Model.
Import ListNotations.
Local Open Scope N_scope.

(** Π dims *)
Definition product (l : list N) : N := fold_right N.mul 1 l.

(** a valid multi-index: same rank, every coordinate below its extent *)
Definition valid (ds idx : list N) : Prop := Forall2 N.lt idx ds.
Fixpoint validb (ds idx : list N) : bool :=
  match ds, idx with
  | [], [] => true
  | d :: ds', i :: idx' => (i <? d) && validb ds' idx'
  | _, _ => false
  end.
Definition positive (ds : list N) : Prop := Forall (fun d => 0 < d) ds.
Definition positiveb (ds : list N) : bool := forallb (fun d => 0 <? d) ds.

(** row-major offset  Σ_i idx[i] · Π_{j>i} dims[j]  (last index fastest) *)
Fixpoint offset (ds idx : list N) : N :=
  match ds, idx with
  | _ :: ds', i :: idx' => i * product ds' + offset ds' idx'
  | _, _ => 0
  end.

(** the multi-index of a flat offset (mixed-radix digits) *)
Fixpoint unflatten (ds : list N) (k : N) : list N :=
  match ds with
  | [] => []
  | _ :: ds' => (k / product ds') :: unflatten ds' (k mod product ds')
  end.

(** number of trailing dimensions that are complete after [m] elements:
    the suffixes [s] of the shape with  Π s | m *)
Fixpoint wraps (ds : list N) (m : N) : nat :=
  match ds with
  | [] => O
  | _ :: ds' => ((if m mod product ds =? 0 then 1 else 0) + wraps ds' m)%nat
  end.
(** separator written after the [m]-th element (m ≥ 1, not the last): a space inside a row,
    otherwise one newline per completed dimension *)
Definition sep_spec {A} (ds : list N) (m : N) : list (tok A) :=
  match wraps ds m with
  | O => [Sp]
  | c => repeat Nl c
  end.
(** the elements in storage order, [l] starting at offset [k] *)
Fixpoint render_from {A} (ds : list N) (k : N) (l : list A) : list (tok A) :=
  match l with
  | [] => []
  | x :: r => E x :: match r with
                     | [] => []
                     | _ => sep_spec ds (k + 1) ++ render_from ds (k + 1) r
                     end
  end.
Definition render {A} (ds : list N) (l : list A) : list (tok A) := render_from ds 0 l.

(** the elements of a token list (separators are whitespace) *)
Fixpoint elems {A} (toks : list (tok A)) : list A :=
  match toks with
  | [] => []
  | E x :: r => x :: elems r
  | _ :: r => elems r
  end.

(** the written text seen as nested structure: a tensor of shape d :: ds' is its d sub-tensors of
    shape ds', separated by a space (ds' = [], i.e. inside a row) or by one newline per dimension of ds' *)
Definition block_sep {A} (ds' : list N) : list (tok A) :=
  match ds' with [] => [Sp] | _ => repeat Nl (length ds') end.
Fixpoint join {T} (sep : list T) (parts : list (list T)) : list T :=
  match parts with
  | [] => []
  | p :: rest => p ++ match rest with [] => [] | _ => sep ++ join sep rest end
  end.
(** [l] cut into [c] consecutive blocks of [n] elements *)
Fixpoint blocks {A} (c n : nat) (l : list A) : list (list A) :=
  match c with O => [] | S c' => firstn n l :: blocks c' n (skipn n l) end.
Fixpoint nested {A} (ds : list N) (l : list A) : list (tok A) :=
  match ds with
  | [] => map E l
  | d :: ds' => join (block_sep ds') (map (nested ds') (blocks (N.to_nat d) (N.to_nat (product ds')) l))
  end.

(** Debug text: after the [m]-th element close the completed dimensions, comma, reopen them *)
Definition dsep_spec {A} (ds : list N) (m : N) : list (dtok A) :=
  repeat DClose (wraps ds m) ++ [DComma] ++ repeat DOpen (wraps ds m).
Fixpoint dbg_from {A} (ds : list N) (k : N) (l : list A) : list (dtok A) :=
  match l with
  | [] => []
  | x :: r => DE x :: match r with
                      | [] => []
                      | _ => dsep_spec ds (k + 1) ++ dbg_from ds (k + 1) r
                      end
  end.
Definition debug_spec {A} (ds : list N) (l : list A) : list (dtok A) :=
  repeat DOpen (length ds) ++ dbg_from ds 0 l ++ repeat DClose (length ds).

(** a constructed tensor: positive extents and Π dims elements *)
Definition wf {A} (t : tensor A) : Prop :=
  positive (dims t) /\ N.of_nat (length (data t)) = product (dims t).
