(** C19 — correspondence cases: one tensor (constructor, shape, data) and a history of
    operations with what the implementation returned for each; compared with the model
    ([model_check]) and with plain row-major arithmetic ([spec_check], independent of the model). *)
From Coq Require Import List NArith ZArith Bool.
From RlibV Require Import Common.Batch C19.Model C19.Spec.
Import ListNotations.
Local Open Scope N_scope.

Inductive ctor := FromVec | FromSlice | New (v : Z).

(** [None] in an observation = the operation panicked *)
Inductive op :=
| OGetIndex (idx : list N) (r : option N)            (* t.get_index(idx) *)
| OGet (idx : list N) (r : option Z)                 (* t[idx] *)
| OSet (idx : list N) (v : Z) (ok : bool)            (* t[idx] = v *)
| OIter (r : list Z)                                 (* t.iter().collect() *)
| ODims (r : list N)                                 (* t.dims() *)
| OWrite (r : option (list (tok Z)))                 (* Writer over a Vec<u8>, lexed *)
| ORoundtrip (r : option (bool * list Z))            (* write, Tensor::read(same dims): (read == t, read.iter()) *)
| ORead (rdims : list N) (toks : list (tok Z)) (r : option (list N * list Z))   (* Tensor::read(rdims, text): dims, iter *)
| OEq (edims : list N) (edata : list Z) (r : option bool)   (* t == from_vec(edims, edata); None: that constructor panicked *)
| ODebug (r : option (list (dtok Z))).                      (* format!("{:?}", t), lexed *)

(** [c_ok]: the constructor returned (false: it panicked; then no operation is run) *)
Record case := Case { c_dims : list N; c_ctor : ctor; c_data : list Z; c_ok : bool; c_ops : list op }.

Definition lNeqb := leqb N.eqb.
Definition lZeqb := leqb Z.eqb.
Definition tokeqb (a b : tok Z) : bool :=
  match a, b with E x, E y => Z.eqb x y | Sp, Sp => true | Nl, Nl => true | _, _ => false end.
Definition dtokeqb (a b : dtok Z) : bool :=
  match a, b with
  | DE x, DE y => Z.eqb x y | DOpen, DOpen => true | DClose, DClose => true | DComma, DComma => true
  | _, _ => false
  end.

(* ------------------------------------------------------------------ model side *)
Definition construct (c : case) : option (tensor Z) :=
  match c_ctor c with
  | FromVec => from_vec (c_dims c) (c_data c)
  | FromSlice => from_slice (c_dims c) (c_data c)
  | New v => new (c_dims c) v
  end.

Definition m_roundtrip (t : tensor Z) : option (bool * list Z) :=
  match write t with
  | Some out => match read (dims t) out with
                | Some u => Some (eq Z.eqb u t, iter u)
                | None => None
                end
  | None => None
  end.

Definition m_op (t : tensor Z) (o : op) : bool :=
  match o with
  | OGetIndex idx r => oeqb N.eqb (get_index (dims t) idx) r
  | OGet idx r => oeqb Z.eqb (index t idx) r
  | OSet _ _ _ => true
  | OIter r => lZeqb (iter t) r
  | ODims r => lNeqb (dims t) r
  | OWrite r => oeqb (leqb tokeqb) (write t) r
  | ORoundtrip r => oeqb (peqb Bool.eqb lZeqb) (m_roundtrip t) r
  | ORead rdims toks r =>
      oeqb (peqb lNeqb lZeqb) (match read rdims toks with Some u => Some (dims u, iter u) | None => None end) r
  | OEq edims edata r =>
      oeqb Bool.eqb (match from_vec edims edata with Some u => Some (eq Z.eqb t u && eq Z.eqb u t) | None => None end) r
  | ODebug r => oeqb (leqb dtokeqb) (debug t) r
  end.

Fixpoint m_ops (t : tensor Z) (ops : list op) : bool :=
  match ops with
  | [] => true
  | OSet idx v ok :: r =>
      match index_mut t idx v with
      | Some t' => ok && m_ops t' r
      | None => negb ok && m_ops t r
      end
  | o :: r => m_op t o && m_ops t r
  end.

Definition model_check (c : case) : bool :=
  match construct c with
  | Some t => c_ok c && m_ops t (c_ops c)
  | None => negb (c_ok c)
  end.

(* ------------------------------------------------------------------ specification side *)
(** the abstract object: a shape and the flat row-major list of elements *)
Definition s_lookup (l : list Z) (k : N) : option Z := nth_error l (N.to_nat k).
Definition s_update (l : list Z) (k : N) (v : Z) : list Z :=
  firstn (N.to_nat k) l ++ v :: skipn (S (N.to_nat k)) l.
Definition s_constructible (ds : list N) (n : nat) : bool := positiveb ds && (product ds =? N.of_nat n).

Definition s_op (ds : list N) (l : list Z) (o : op) : bool :=
  match o with
  | OGetIndex idx r =>
      if validb ds idx then oeqb N.eqb (Some (offset ds idx)) r else oeqb N.eqb None r
  | OGet idx r =>
      if validb ds idx
      then match s_lookup l (offset ds idx), r with Some x, Some y => Z.eqb x y | _, _ => false end
      else oeqb Z.eqb None r
  | OSet _ _ _ => true
  | OIter r => lZeqb l r
  | ODims r => lNeqb ds r
  | OWrite r => oeqb (leqb tokeqb) (Some (render ds l)) r
  | ORoundtrip r => oeqb (peqb Bool.eqb lZeqb) (Some (true, l)) r
  | ORead rdims toks r =>
      let n := N.to_nat (product rdims) in
      if positiveb rdims && (n <=? length (elems toks))%nat
      then oeqb (peqb lNeqb lZeqb) (Some (rdims, firstn n (elems toks))) r
      else oeqb (peqb lNeqb lZeqb) None r
  | OEq edims edata r =>
      if s_constructible edims (length edata)
      then oeqb Bool.eqb (Some (lNeqb ds edims && lZeqb l edata)) r
      else oeqb Bool.eqb None r
  | ODebug r => oeqb (leqb dtokeqb) (Some (debug_spec ds l)) r
  end.

Fixpoint s_ops (ds : list N) (l : list Z) (ops : list op) : bool :=
  match ops with
  | [] => true
  | OSet idx v ok :: r =>
      if validb ds idx then ok && s_ops ds (s_update l (offset ds idx) v) r
      else negb ok && s_ops ds l r
  | o :: r => s_op ds l o && s_ops ds l r
  end.

Definition s_initial (c : case) : option (list Z) :=
  match c_ctor c with
  | New v => if positiveb (c_dims c) then Some (repeat v (N.to_nat (product (c_dims c)))) else None
  | _ => if s_constructible (c_dims c) (length (c_data c)) then Some (c_data c) else None
  end.

Definition spec_check (c : case) : bool :=
  match s_initial c with
  | Some l => c_ok c && s_ops (c_dims c) l (c_ops c)
  | None => negb (c_ok c)
  end.

(** what the model computes (for replay files): the tensor after construction, the offset /
    element / written text for the index of the first operation *)
Definition explain (c : case) :=
  match construct c with
  | None => (None, None, None, None)
  | Some t =>
      let idx := match c_ops c with
                 | OGetIndex i _ :: _ | OGet i _ :: _ | OSet i _ _ :: _ => i
                 | _ => map (fun _ => 0) (dims t)
                 end in
      (Some (dims t, data t), get_index (dims t) idx, index t idx, write t)
  end.
