(** C19 — correspondence cases: one tensor (constructor, shape, data) and a history of
    operations with what the implementation returned for each; compared with the model
    ([model_check]) and with plain row-major arithmetic ([spec_check], independent of the model).
    The model side runs the constructors and [read] with the checked element count of the code
    ([from_vec_chk] ... at [usize_max]); the specification side says: a shape is constructible iff its extents
    are positive and Π dims <= usize::MAX. *)
From Coq Require Import List NArith ZArith Bool.
From RlibV Require Import Common.Batch C19.Model C19.Spec.
Import ListNotations.
Local Open Scope N_scope.

Inductive ctor := FromVec | FromSlice | New (v : Z).

(** [None] in an observation = the operation panicked *)
Inductive op :=
| OGetIndex (idx : list N) (r : option N)            (* t.get_index(idx) *)
| OGet (idx : list N) (r : option Z)                 (* t[idx] *)
| OSet (idx : list N) (v : Z) (ok : bool)            (* t[idx] = v *)
| OIter (r : list Z)                                 (* t.iter().collect() *)
| ODims (r : list N)                                 (* t.dims() *)
| OWrite (r : option (list (tok Z)))                 (* Writer over a Vec<u8>, lexed *)
| ORoundtrip (r : option (bool * list Z))            (* write, Tensor::read(same dims): (read == t, read.iter()) *)
| ORead (rdims : list N) (toks : list (tok Z)) (r : option (list N * list Z))   (* Tensor::read(rdims, text): dims, iter *)
| OEq (edims : list N) (edata : list Z) (r : option bool)   (* t == from_vec(edims, edata); None: that constructor panicked *)
| ODebug (r : option (list (dtok Z)))                       (* format!("{:?}", t), lexed *)
| OIterMut (vs : list Z) (cnt : N).                         (* for (x, v) in t.iter_mut().zip(vs) { *x = v }; cnt = t.iter_mut().count() *)

(** usize::MAX of the 64-bit targets the executor is built for *)
Definition usize_max : N := 18446744073709551615.

(** [c_ok]: the constructor returned (false: it panicked; then no operation is run) *)
Record case := Case { c_dims : list N; c_ctor : ctor; c_data : list Z; c_ok : bool; c_ops : list op }.

Definition lNeqb := leqb N.eqb.
Definition lZeqb := leqb Z.eqb.
Definition tokeqb (a b : tok Z) : bool :=
  match a, b with E x, E y => Z.eqb x y | Sp, Sp => true | Nl, Nl => true | _, _ => false end.
Definition dtokeqb (a b : dtok Z) : bool :=
  match a, b with
  | DE x, DE y => Z.eqb x y | DOpen, DOpen => true | DClose, DClose => true | DComma, DComma => true
  | _, _ => false
  end.

(* ------------------------------------------------------------------ model side *)
Definition construct (c : case) : option (tensor Z) :=
  match c_ctor c with
  | FromVec => from_vec_chk usize_max (c_dims c) (c_data c)
  | FromSlice => from_slice_chk usize_max (c_dims c) (c_data c)
  | New v => new_chk usize_max (c_dims c) v
  end.

Definition m_roundtrip (t : tensor Z) : option (bool * list Z) :=
  match write t with
  | Some out => match read_chk usize_max (dims t) out with
                | Some u => Some (eq Z.eqb u t, iter u)
                | None => None
                end
  | None => None
  end.

Definition m_op (t : tensor Z) (o : op) : bool :=
  match o with
  | OGetIndex idx r => oeqb N.eqb (get_index (dims t) idx) r
  | OGet idx r => oeqb Z.eqb (index t idx) r
  | OSet _ _ _ => true
  | OIter r => lZeqb (iter t) r
  | ODims r => lNeqb (dims t) r
  | OWrite r => oeqb (leqb tokeqb) (write t) r
  | ORoundtrip r => oeqb (peqb Bool.eqb lZeqb) (m_roundtrip t) r
  | ORead rdims toks r =>
      oeqb (peqb lNeqb lZeqb) (match read_chk usize_max rdims toks with Some u => Some (dims u, iter u) | None => None end) r
  | OEq edims edata r =>
      oeqb Bool.eqb (match from_vec_chk usize_max edims edata with Some u => Some (eq Z.eqb t u && eq Z.eqb u t) | None => None end) r
  | ODebug r => oeqb (leqb dtokeqb) (debug t) r
  | OIterMut _ cnt => lenN (data t) =? cnt
  end.

Fixpoint m_ops (t : tensor Z) (ops : list op) : bool :=
  match ops with
  | [] => true
  | OSet idx v ok :: r =>
      match index_mut t idx v with
      | Some t' => ok && m_ops t' r
      | None => negb ok && m_ops t r
      end
  | OIterMut vs cnt :: r => m_op t (OIterMut vs cnt) && m_ops (iter_mut_assign t vs) r
  | o :: r => m_op t o && m_ops t r
  end.

Definition model_check (c : case) : bool :=
  match construct c with
  | Some t => c_ok c && m_ops t (c_ops c)
  | None => negb (c_ok c)
  end.

(* ------------------------------------------------------------------ specification side *)
(** the abstract object: a shape and the flat row-major list of elements *)
Definition s_lookup (l : list Z) (k : N) : option Z := nth_error l (N.to_nat k).
Definition s_update (l : list Z) (k : N) (v : Z) : list Z :=
  firstn (N.to_nat k) l ++ v :: skipn (S (N.to_nat k)) l.
(** a shape can be constructed when its extents are positive and its element count fits into usize *)
Definition s_shape (ds : list N) : bool := positiveb ds && (product ds <=? usize_max).
Definition s_constructible (ds : list N) (n : nat) : bool := s_shape ds && (product ds =? N.of_nat n).
(** the first [length l] values replace the front of [l] *)
Definition s_assign (l vs : list Z) : list Z := firstn (length l) vs ++ skipn (length vs) l.

Definition s_op (ds : list N) (l : list Z) (o : op) : bool :=
  match o with
  | OGetIndex idx r =>
      if validb ds idx then oeqb N.eqb (Some (offset ds idx)) r else oeqb N.eqb None r
  | OGet idx r =>
      if validb ds idx
      then match s_lookup l (offset ds idx), r with Some x, Some y => Z.eqb x y | _, _ => false end
      else oeqb Z.eqb None r
  | OSet _ _ _ => true
  | OIter r => lZeqb l r
  | ODims r => lNeqb ds r
  | OWrite r => oeqb (leqb tokeqb) (Some (render ds l)) r
  | ORoundtrip r => oeqb (peqb Bool.eqb lZeqb) (Some (true, l)) r
  | ORead rdims toks r =>
      if s_shape rdims && (product rdims <=? N.of_nat (length (elems toks)))
      then oeqb (peqb lNeqb lZeqb) (Some (rdims, firstn (N.to_nat (product rdims)) (elems toks))) r
      else oeqb (peqb lNeqb lZeqb) None r
  | OEq edims edata r =>
      if s_constructible edims (length edata)
      then oeqb Bool.eqb (Some (lNeqb ds edims && lZeqb l edata)) r
      else oeqb Bool.eqb None r
  | ODebug r => oeqb (leqb dtokeqb) (Some (debug_spec ds l)) r
  | OIterMut _ cnt => N.of_nat (length l) =? cnt
  end.

Fixpoint s_ops (ds : list N) (l : list Z) (ops : list op) : bool :=
  match ops with
  | [] => true
  | OSet idx v ok :: r =>
      if validb ds idx then ok && s_ops ds (s_update l (offset ds idx) v) r
      else negb ok && s_ops ds l r
  | OIterMut vs cnt :: r => s_op ds l (OIterMut vs cnt) && s_ops ds (s_assign l vs) r
  | o :: r => s_op ds l o && s_ops ds l r
  end.

Definition s_initial (c : case) : option (list Z) :=
  match c_ctor c with
  | New v => if s_shape (c_dims c) then Some (repeat v (N.to_nat (product (c_dims c)))) else None
  | _ => if s_constructible (c_dims c) (length (c_data c)) then Some (c_data c) else None
  end.

Definition spec_check (c : case) : bool :=
  match s_initial c with
  | Some l => c_ok c && s_ops (c_dims c) l (c_ops c)
  | None => negb (c_ok c)
  end.

(** what the model computes (for replay files): the tensor after construction, the offset /
    element / written text for the index of the first operation *)
Definition explain (c : case) :=
  match construct c with
  | None => (None, None, None, None)
  | Some t =>
      let idx := match c_ops c with
                 | OGetIndex i _ :: _ | OGet i _ :: _ | OSet i _ _ :: _ => i
                 | _ => map (fun _ => 0) (dims t)
                 end in
      (Some (dims t, data t), get_index (dims t) idx, index t idx, write t)
  end.
