(** C05 — the abstract objects the theorems speak about (definitions only).

    [conn es] is the equivalence closure of the list of union requests [es]; [reach n es s] says that
    the DSU value [s] is what some history of calls produces, where [n] is the current element count
    and [es] the union requests made since the last reset (or since [new]). *)
From Coq Require Import List Arith NArith Bool.
From RlibV Require Import C05.Model.
Import ListNotations.

Inductive conn (es : list (nat * nat)) : nat -> nat -> Prop :=
| conn_refl x : conn es x x
| conn_edge x y : In (x, y) es -> conn es x y
| conn_sym x y : conn es x y -> conn es y x
| conn_trans x y z : conn es x y -> conn es y z -> conn es x z.

(** [k] is the number of elements below [n] connected to [v] *)
Definition class_card (n : nat) (es : list (nat * nat)) (v k : nat) : Prop :=
  exists l, NoDup l /\ (forall x, In x l <-> x < n /\ conn es v x) /\ length l = k.

(** element count and union requests after a call that did not panic *)
Definition ghost_n (n : nat) (o : op) : nat := match o with Reset m => N.to_nat m | _ => n end.
Definition ghost_es (es : list (nat * nat)) (o : op) : list (nat * nat) :=
  match o with Un u v => es ++ [(u, v)] | Reset _ => [] | _ => es end.

Inductive reach : nat -> list (nat * nat) -> dsu -> Prop :=
| reach_new n : reach n [] (new n)
| reach_step n es s o s' r :
    reach n es s -> step s o = Ok (s', r) -> reach (ghost_n n o) (ghost_es es o) s'.

(** number of elements below [n] whose representative (under [rep]) is [r] *)
Definition count_rep (n : nat) (rep : nat -> nat) (r : nat) : nat :=
  length (filter (fun x => rep x =? r) (seq 0 n)).

(** The invariant, with its ghost witnesses: [rank] (an upper bound of the height of every node that
    survives path compression) and [rep] (the root every element leads to).  [n] is the element
    count, [es] the union requests since the last reset. *)
Record Ghost (n : nat) (es : list (nat * nat)) (s : dsu) (rank rep : nat -> nat) : Prop := {
  g_lenp : length (p s) = n;
  g_lensz : length (sz s) = n;
  g_range : forall v, v < n -> nth v (p s) 0 < n;
  g_rank : forall v, v < n -> nth v (p s) 0 <> v -> rank v < rank (nth v (p s) 0);
  g_rep_par : forall v, v < n -> rep (nth v (p s) 0) = rep v;
  g_rep_root : forall v, v < n -> rep v < n /\ nth (rep v) (p s) 0 = rep v;
  g_root_rep : forall v, v < n -> nth v (p s) 0 = v -> rep v = v;
  g_rank_rep : forall v, v < n -> rank v <= rank (rep v);
  g_size : forall r, r < n -> nth r (p s) 0 = r ->
             2 ^ rank r <= nth r (sz s) 0 /\ nth r (sz s) 0 = count_rep n rep r;
  g_edges : forall x y, In (x, y) es -> x < n /\ y < n /\ rep x = rep y;
  g_conn : forall x, x < n -> conn es x (rep x)
}.

Definition Inv (n : nat) (es : list (nat * nat)) (s : dsu) : Prop :=
  exists rank rep, Ghost n es s rank rep.

(** a whole history on one value: the calls in order, stopping at the first panic *)
Fixpoint run (s : dsu) (ops : list op) : res (dsu * list ret) :=
  match ops with
  | [] => Ok (s, [])
  | o :: t =>
      match step s o with
      | Ok (s', r) =>
          match run s' t with
          | Ok (s'', rs) => Ok (s'', r :: rs)
          | Panic => Panic
          | Fuel => Fuel
          end
      | Panic => Panic
      | Fuel => Fuel
      end
  end.

(** element count and union requests since the last reset, after the history [ops] *)
Fixpoint ghost_run (n : nat) (es : list (nat * nat)) (ops : list op) : nat * list (nat * nat) :=
  match ops with
  | [] => (n, es)
  | o :: t => ghost_run (ghost_n n o) (ghost_es es o) t
  end.

(** [chain pa v r k]: following the parent array [pa] from [v] for [k] steps arrives at the root [r] *)
Inductive chain (pa : list nat) : nat -> nat -> nat -> Prop :=
| chain_root r : nth_error pa r = Some r -> chain pa r r 0
| chain_up v w r k : nth_error pa v = Some w -> w <> v -> chain pa w r k -> chain pa v r (S k).

(** the value [par] returns, if it returns *)
Definition par_val (s : dsu) (v : nat) : option nat :=
  match par s v with Ok (_, r) => Some r | _ => None end.

(** is every index of the call below the element count, and does the buffer a reset asks for fit into isize::MAX
    bytes? (a call with an index out of range panics; so does a reset whose request is refused) *)
Definition in_range (n : nat) (o : op) : bool :=
  match o with
  | Un u v | Check u v => (u <? n) && (v <? n)
  | Par v | Size v => v <? n
  | Reset m => negb (alloc_overflow m)
  end.

(** several live copies: what [mstep] can produce from a single fresh value *)
Inductive mreach : list dsu -> Prop :=
| mreach_new n : mreach [new n]
| mreach_step cs m cs' c r : mreach cs -> mstep cs m = Ok (cs', c, r) -> mreach cs'.

(** calls that are lookups *)
Definition is_lookup (o : op) : bool :=
  match o with Par _ | Check _ _ | Size _ => true | _ => false end.
