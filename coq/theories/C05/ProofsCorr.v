(** C05 — [model_check c = true -> spec_check c = true].

    A simulation between the model's copies and the naive partitions of [spec_check]: [Rel s q] says that
    the partition [q] has the classes of the ghost representative function of [s] and that every
    representative [q] remembers is the true one.  Every call keeps the relation and makes the model's answer
    acceptable to [spec_op]; every array snapshot equal to the model's arrays passes [see_snap] (roots, root
    sizes, depth <= log2 class size).  So on every case where the implementation agrees with the model, the
    implementation satisfies the specification — by proof, not by a second computation. *)
From Coq Require Import List Arith NArith Bool Lia.
From RlibV Require Import Common.Batch C05.Model C05.Spec C05.Proofs C05.ProofsInv C05.ProofsMain C05.Corr.
Import ListNotations.

(* ================================================================ part 1 *)
(** [un] with the new representative function made explicit *)
Lemma un_spec2 n es s rank rep u v : Ghost n es s rank rep -> u < n -> v < n ->
  exists s' rank' rep',
    un s u v = Ok (s', negb (rep u =? rep v)) /\ Ghost n (es ++ [(u, v)]) s' rank' rep' /\
    (forall w, rep' w = if (rep w =? rep u) || (rep w =? rep v) then rep' u else rep w) /\
    (rep' u = rep u \/ rep' u = rep v).
Proof.
  intros G Hu Hv. unfold un.
  destruct (par_spec _ _ _ _ _ G u Hu) as (s1 & E1 & G1 & Z1). rewrite E1.
  destruct (par_spec _ _ _ _ _ G1 v Hv) as (s2 & E2 & G2 & Z2). rewrite E2.
  destruct (Nat.eqb_spec (rep u) (rep v)) as [E|E]; cbn [negb].
  - exists s2, rank, rep. split; [reflexivity|]. split; [now apply ghost_same_edge|].
    split; [|now left].
    intros w. rewrite <- E. rewrite orb_diag. destruct (Nat.eqb_spec (rep w) (rep u)); auto.
  - destruct (g_rep_root _ _ _ _ _ G2 u Hu) as [Ru1 Ru2].
    destruct (g_rep_root _ _ _ _ _ G2 v Hv) as [Rv1 Rv2].
    pose proof (g_lenp _ _ _ _ _ G2) as Lp. pose proof (g_lensz _ _ _ _ _ G2) as Ls.
    pose proof (rep_idem _ _ _ _ _ G2 u Hu) as Iu.
    rewrite !get_ok by lia. cbn [bind].
    destruct (nth (rep v) (sz s2) 0 <? nth (rep u) (sz s2) 0) eqn:C.
    + apply Nat.ltb_lt in C. rewrite !get_ok by lia. cbn [bind].
      rewrite (set_ok (sz s2)) by lia. cbn [bind]. rewrite (set_ok (p s2)) by lia. cbn [bind].
      do 3 eexists. split; [reflexivity|]. split.
      * apply ghost_link; [exact G2|..]; auto; lia.
      * split; [intros w|]; cbv beta; eqbs; cbn [orb]; auto; congruence.
    + apply Nat.ltb_ge in C. rewrite !get_ok by lia. cbn [bind].
      rewrite (set_ok (sz s2)) by lia. cbn [bind]. rewrite (set_ok (p s2)) by lia. cbn [bind].
      do 3 eexists. split; [reflexivity|]. split.
      * apply ghost_link; [exact G2|..]; auto; lia.
      * split; [intros w|]; cbv beta; eqbs; cbn [orb]; auto; congruence.
Qed.

(* ------------------------------------------------------------------ list helpers *)
Lemma nth_put {A} (l : list A) i j x d :
  nth j (put l i x) d = if (j =? i) && (i <? length l) then x else nth j l d.
Proof.
  revert i j; induction l as [|h t IH]; intros [|i] [|j]; cbn [put nth length]; auto.
  - now rewrite andb_false_r.
  - rewrite IH. cbn [Nat.eqb]. destruct (j =? i); cbn [andb]; auto.
Qed.

Lemma put_length {A} (l : list A) i x : length (put l i x) = length l.
Proof. revert i; induction l as [|h t IH]; intros [|i]; cbn; auto. Qed.

Lemma list_as_map (l : list nat) : l = map (fun i => nth i l 0) (seq 0 (length l)).
Proof.
  apply nth_ext with (d := 0) (d' := 0).
  - now rewrite map_length, seq_length.
  - intros i Hi. symmetry.
    rewrite (nth_indep (map (fun i => nth i l 0) (seq 0 (length l))) 0 (nth 0 l 0))
      by now rewrite map_length, seq_length.
    rewrite (map_nth (fun i => nth i l 0) (seq 0 (length l)) 0 i). now rewrite seq_nth.
Qed.

Lemma filter_map_length {A B} (g : B -> bool) (f : A -> B) l :
  length (filter g (map f l)) = length (filter (fun x => g (f x)) l).
Proof. induction l as [|h t IH]; cbn; auto. destruct (g (f h)); cbn; auto. Qed.

Lemma leqb_N_decode l m : leqb N.eqb (map N.of_nat l) m = true -> map nn m = l.
Proof.
  revert m; induction l as [|h t IH]; intros [|a m]; cbn; try discriminate; auto.
  intros H. apply andb_true_iff in H. destruct H as [H1 H2]. apply N.eqb_eq in H1. subst a.
  unfold nn at 1. rewrite Nat2N.id. f_equal. now apply IH.
Qed.

(* ================================================================ part 2 *)
(** the naive partition [q] describes the same classes as the ghost [rep] of [s] *)
Record RelG (n : nat) (rep : nat -> nat) (q : part) : Prop := {
  r_len : length (lab q) = n;
  r_lab : forall x y, x < n -> y < n -> (labof q x =? labof q y) = (rep x =? rep y);
  r_known : forall v r0, v < n -> nth (labof q v) (known q) None = Some r0 -> r0 = rep v
}.
Definition Rel (s : dsu) (q : part) : Prop :=
  exists n es rank rep, Ghost n es s rank rep /\ RelG n rep q.

Section WithRel.
Variables (n : nat) (es : list (nat * nat)) (s : dsu) (rank rep : nat -> nat).
Hypothesis G : Ghost n es s rank rep.

Lemma class_size_count q v : RelG n rep q -> v < n -> class_size q v = count_rep n rep (rep v).
Proof.
  intros R Hv. unfold class_size, count_rep.
  rewrite (list_as_map (lab q)) at 1. rewrite filter_map_length, (r_len _ _ _ R).
  f_equal. apply filter_ext_in. intros x Hx. apply in_seq in Hx.
  fold (labof q x). apply (r_lab _ _ _ R); lia.
Qed.

Lemma see_rep_ok q v : RelG n rep q -> v < n ->
  exists q', see_rep q v (rep v) = Some q' /\ RelG n rep q'.
Proof.
  intros R Hv. unfold see_rep, inr_.
  destruct (g_rep_root _ _ _ _ _ G v Hv) as [R1 R2].
  rewrite (r_len _ _ _ R). apply Nat.ltb_lt in R1 as R1'. rewrite R1'. cbn [andb].
  rewrite (r_lab _ _ _ R) by auto. rewrite (rep_idem _ _ _ _ _ G v Hv), Nat.eqb_refl.
  destruct (nth (labof q v) (known q) None) as [r0|] eqn:E.
  - rewrite (r_known _ _ _ R v r0 Hv E), Nat.eqb_refl. eauto.
  - eexists. split; [reflexivity|]. constructor; cbn [lab known].
    + apply (r_len _ _ _ R).
    + apply (r_lab _ _ _ R).
    + intros w r0 Hw. unfold labof at 1 2. cbn [lab]. fold (labof q w). fold (labof q v).
      rewrite nth_put.
      destruct (Nat.eqb_spec (labof q w) (labof q v)) as [El|El]; cbn [andb].
      * destruct (labof q v <? length (known q)).
        -- intros H. inversion H; subst r0.
           apply Nat.eqb_eq. rewrite <- (r_lab _ _ _ R) by auto. now apply Nat.eqb_eq.
        -- apply (r_known _ _ _ R); auto.
      * apply (r_known _ _ _ R); auto.
Qed.

(** walking the parent array finds the representative, in at most rank-difference steps *)
Lemma walk_ok : forall fuel v d, v < n -> rank (rep v) - rank v < fuel ->
  exists k, walk fuel (p s) v d = Some (rep v, (d + N.of_nat k)%N) /\ rank v + k <= rank (rep v).
Proof.
  induction fuel as [|f IH]; intros v d Hv Hf; [lia|].
  pose proof (g_lenp _ _ _ _ _ G) as Lp. cbn [walk].
  rewrite (nth_error_nth' (p s) 0) by lia.
  destruct (Nat.eqb_spec (nth v (p s) 0) v) as [E|E].
  - exists 0. rewrite (g_root_rep _ _ _ _ _ G v Hv E). split; [f_equal; f_equal; lia|lia].
  - pose proof (g_range _ _ _ _ _ G v Hv) as Hr.
    pose proof (g_rank _ _ _ _ _ G v Hv E) as Hk.
    pose proof (g_rank_rep _ _ _ _ _ G _ Hr) as Hk2.
    pose proof (g_rep_par _ _ _ _ _ G v Hv) as Hp.
    destruct (IH (nth v (p s) 0) (N.succ d) Hr) as (k & Ek & Bk); [rewrite Hp in *; lia|].
    exists (S k). rewrite Ek, Hp. split; [f_equal; f_equal; lia|]. rewrite Hp in Bk. lia.
Qed.

Lemma depth_N k c : 2 ^ k <= c -> (N.of_nat k <=? N.log2 (N.of_nat c))%N = true.
Proof.
  intros H. apply N.leb_le. apply N.log2_le_pow2.
  - pose proof (Nat.pow_nonzero 2 k). lia.
  - change 2%N with (N.of_nat 2). rewrite <- Nat2N.inj_pow. lia.
Qed.

Lemma see_snap_fold q0 : forall vs q, Forall (fun v => v < n) vs -> RelG n rep q -> lab q = lab q0 ->
  exists q', fold_left (fun (acc : option part) (v : nat) =>
      match acc with
      | None => None
      | Some q1 =>
          match walk (S (length (lab q0))) (p s) v 0%N with
          | None => None
          | Some (r, d) =>
              let k := class_size q1 v in
              if (N.leb d (N.log2 (N.of_nat k))) && (nth r (sz s) 0 =? k) then see_rep q1 v r else None
          end
      end) vs (Some q) = Some q' /\ RelG n rep q' .
Proof.
  induction vs as [|v vs IH]; intros q Hvs R L; cbn [fold_left]; [eauto|].
  inversion Hvs as [|? ? Hv Hvs']; subst.
  assert (Ln : length (lab q0) = n) by (rewrite <- L; apply (r_len _ _ _ R)).
  destruct (walk_ok (S (length (lab q0))) v 0%N Hv) as (k & Ek & Bk).
  { rewrite Ln. pose proof (rank_rep_lt_n _ _ _ _ _ G v Hv). lia. }
  rewrite Ek. cbv zeta.
  destruct (g_rep_root _ _ _ _ _ G v Hv) as [R1 R2].
  destruct (g_size _ _ _ _ _ G _ R1 R2) as [S1 S2].
  rewrite (class_size_count q v R Hv). rewrite S2, Nat.eqb_refl, andb_true_r.
  rewrite N.add_0_l, depth_N.
  2:{ rewrite <- S2. etransitivity; [|exact S1]. apply Nat.pow_le_mono_r; lia. }
  destruct (see_rep_ok q v R Hv) as (q1 & E1 & R1').
  rewrite E1. apply IH; auto.
  unfold see_rep in E1. destruct (inr_ q (rep v) && (labof q (rep v) =? labof q v)); [|discriminate].
  destruct (nth (labof q v) (known q) None) as [r0|].
  - destruct (r0 =? rep v); inversion E1; subst; auto.
  - inversion E1; subst; auto.
Qed.

Lemma see_snap_ok q x : RelG n rep q -> snap_eqb s x = true ->
  exists q', see_snap q x = Some q' /\ RelG n rep q'.
Proof.
  intros R H. unfold snap_eqb, lN_eqb in H. apply andb_true_iff in H. destruct H as [H1 H2].
  apply leqb_N_decode in H1. apply leqb_N_decode in H2.
  unfold see_snap. rewrite H1, H2. cbv zeta.
  rewrite (g_lenp _ _ _ _ _ G), (g_lensz _ _ _ _ _ G).
  assert (T : (n =? length (lab q)) = true) by (apply Nat.eqb_eq; symmetry; apply R).
  rewrite T. cbn [andb].
  apply see_snap_fold; auto.
  apply Forall_forall. intros v Hv. apply in_seq in Hv. rewrite (r_len _ _ _ R) in Hv. lia.
Qed.
End WithRel.

(* ================================================================ part 3 *)
Lemma RelG_ext n rep rep' q : (forall x, rep' x = rep x) -> RelG n rep q -> RelG n rep' q.
Proof.
  intros E R. destruct R as [L A K]. constructor; auto.
  - intros x y Hx Hy. rewrite !E. auto.
  - intros v r0 Hv H. rewrite E. eauto.
Qed.

Lemma nth_repeat_none {A} m i : nth i (repeat (@None A) m) None = None.
Proof. revert i; induction m as [|m IH]; intros [|i]; cbn; auto. Qed.

Lemma rel_new m : Rel (new m) (part_new m).
Proof.
  exists m, [], (fun _ => 0), (fun x => x). split; [apply new_ghost|].
  constructor; cbn [part_new lab known].
  - apply seq_length.
  - intros x y Hx Hy. unfold labof, part_new. cbn [lab]. now rewrite !seq_nth.
  - intros v r0 _. rewrite nth_repeat_none. discriminate.
Qed.

Lemma labof_map q f x : x < length (lab q) ->
  nth x (map f (lab q)) 0 = f (labof q x).
Proof.
  intros H. unfold labof. rewrite (nth_indep _ 0 (f 0)) by now rewrite map_length.
  apply map_nth.
Qed.

Lemma relg_union n rep rep' q u v : RelG n rep q -> u < n -> v < n ->
  (forall w, rep' w = if (rep w =? rep u) || (rep w =? rep v) then rep' u else rep w) ->
  (rep' u = rep u \/ rep' u = rep v) ->
  RelG n rep' (part_union q u v).
Proof.
  intros R Hu Hv F B. pose proof (r_len _ _ _ R) as L.
  pose proof (r_lab _ _ _ R u v Hu Hv) as Luv.
  unfold part_union. destruct (Nat.eqb_spec (labof q u) (labof q v)) as [E|E].
  - (* same class: nothing changes *)
    symmetry in Luv. apply Nat.eqb_eq in Luv.
    apply RelG_ext with rep; auto. intros w. rewrite F, <- Luv, orb_diag.
    destruct (Nat.eqb_spec (rep w) (rep u)) as [Ew|Ew]; auto.
    destruct B as [B|B]; congruence.
  - symmetry in Luv. apply Nat.eqb_neq in Luv.
    assert (LAB : forall x, x < n ->
      labof (mkpart (map (fun l => if l =? labof q u then labof q v else l) (lab q))
                    (put (put (known q) (labof q u) None) (labof q v) None)) x
      = if labof q x =? labof q u then labof q v else labof q x).
    { intros x Hx. unfold labof at 1. cbn [lab]. rewrite labof_map by lia. reflexivity. }
    constructor; cbn [lab known].
    + now rewrite map_length.
    + intros x y Hx Hy. rewrite !LAB by auto. rewrite (F x), (F y).
      pose proof (r_lab _ _ _ R x y Hx Hy) as Lxy.
      pose proof (r_lab _ _ _ R x u Hx Hu) as Lxu. pose proof (r_lab _ _ _ R x v Hx Hv) as Lxv.
      pose proof (r_lab _ _ _ R y u Hy Hu) as Lyu. pose proof (r_lab _ _ _ R y v Hy Hv) as Lyv.
      destruct (Nat.eqb_spec (rep x) (rep u)), (Nat.eqb_spec (rep x) (rep v)),
               (Nat.eqb_spec (rep y) (rep u)), (Nat.eqb_spec (rep y) (rep v)),
               (Nat.eqb_spec (rep x) (rep y));
      destruct (Nat.eqb_spec (labof q x) (labof q u)), (Nat.eqb_spec (labof q x) (labof q v)),
               (Nat.eqb_spec (labof q y) (labof q u)), (Nat.eqb_spec (labof q y) (labof q v)),
               (Nat.eqb_spec (labof q x) (labof q y)); try discriminate; cbn [orb];
      try congruence;
      repeat match goal with |- context [?a =? ?b] => destruct (Nat.eqb_spec a b) end;
      try reflexivity; try congruence; destruct B; congruence.
    + intros w r0 Hw. rewrite LAB by auto. rewrite !nth_put, (F w).
      pose proof (r_lab _ _ _ R w u Hw Hu) as Lwu. pose proof (r_lab _ _ _ R w v Hw Hv) as Lwv.
      rewrite <- Lwu, <- Lwv.
      destruct (Nat.eqb_spec (labof q w) (labof q u)) as [E1|E1]; cbn [orb].
      * rewrite Nat.eqb_refl. cbn [andb]. rewrite put_length.
        destruct (labof q v <? length (known q)) eqn:C; [discriminate|].
        apply Nat.ltb_ge in C. destruct ((labof q v =? labof q u) && _); [discriminate|].
        rewrite nth_overflow by lia. discriminate.
      * destruct (Nat.eqb_spec (labof q w) (labof q v)) as [E2|E2]; cbn [andb].
        -- rewrite put_length. destruct (labof q v <? length (known q)) eqn:C; [discriminate|].
           apply Nat.ltb_ge in C. rewrite E2. destruct ((labof q v =? labof q u) && _); [discriminate|].
           rewrite nth_overflow by lia. discriminate.
        -- apply Nat.eqb_neq in E1 as E1'. rewrite ?E1'. cbn [andb]. apply (r_known _ _ _ R); auto.
Qed.

(** every call: the model's answer passes [spec_op], and the relation is kept *)
Lemma rel_step s q (o : nop) s' rv r :
  Rel s q -> is_clone o = false ->
  match to_mop o with On _ op => step s op = Ok (s', rv) | Clone _ => False end ->
  ret_eqb rv r = true ->
  exists q1, spec_op q o r = Some q1 /\ Rel s' q1.
Proof.
  intros (n & es & rank & rep & G & R) NC H HR.
  destruct o as [c u v|c v|c u v|c v|c m|c]; cbn [to_mop is_clone] in *; try discriminate.
  - (* un *)
    pose proof (step_outcome _ _ _ _ _ (Un (nn u) (nn v)) G) as O. cbn [in_range] in O.
    destruct (Nat.ltb_spec (nn u) n) as [Hu|Hu]; [destruct (Nat.ltb_spec (nn v) n) as [Hv|Hv]|];
      cbn [andb] in O; try (rewrite O in H; discriminate).
    destruct (un_spec2 _ _ _ _ _ (nn u) (nn v) G Hu Hv) as (s1 & rank' & rep' & E & G' & F & B).
    cbn [step] in H. rewrite E in H. inversion H; subst s' rv. clear H.
    destruct r as [b| | | |]; cbn [ret_eqb] in HR; try discriminate.
    apply eqb_prop in HR. subst b. cbn [spec_op].
    rewrite (r_lab _ _ _ R) by auto. rewrite eqb_reflx.
    eexists. split; [reflexivity|]. exists n, (es ++ [(nn u, nn v)]), rank', rep'. split; auto.
    now apply relg_union with rep.
  - (* par *)
    pose proof (step_outcome _ _ _ _ _ (Par (nn v)) G) as O. cbn [in_range] in O.
    destruct (Nat.ltb_spec (nn v) n) as [Hv|Hv]; try (rewrite O in H; discriminate).
    destruct (par_spec _ _ _ _ _ G (nn v) Hv) as (s1 & E & G' & _).
    cbn [step] in H. rewrite E in H. inversion H; subst s' rv. clear H.
    destruct r as [|k| | |]; cbn [ret_eqb] in HR; try discriminate.
    apply N.eqb_eq in HR. subst k. cbn [spec_op]. unfold nn at 2. rewrite Nat2N.id.
    destruct (see_rep_ok _ _ _ _ _ G q (nn v) R Hv) as (q1 & E1 & R1).
    exists q1. split; auto. exists n, es, rank, rep. auto.
  - (* check *)
    pose proof (step_outcome _ _ _ _ _ (Check (nn u) (nn v)) G) as O. cbn [in_range] in O.
    destruct (Nat.ltb_spec (nn u) n) as [Hu|Hu]; [destruct (Nat.ltb_spec (nn v) n) as [Hv|Hv]|];
      cbn [andb] in O; try (rewrite O in H; discriminate).
    destruct (check_spec _ _ _ _ _ G (nn u) (nn v) Hu Hv) as (s1 & E & G' & _).
    cbn [step] in H. rewrite E in H. inversion H; subst s' rv. clear H.
    destruct r as [b| | | |]; cbn [ret_eqb] in HR; try discriminate.
    apply eqb_prop in HR. subst b. cbn [spec_op].
    rewrite (r_lab _ _ _ R) by auto. rewrite eqb_reflx.
    eexists. split; [reflexivity|]. exists n, es, rank, rep. auto.
  - (* size *)
    pose proof (step_outcome _ _ _ _ _ (Size (nn v)) G) as O. cbn [in_range] in O.
    destruct (Nat.ltb_spec (nn v) n) as [Hv|Hv]; try (rewrite O in H; discriminate).
    destruct (size_spec _ _ _ _ _ G (nn v) Hv) as (s1 & E & G' & _).
    cbn [step] in H. rewrite E in H. inversion H; subst s' rv. clear H.
    destruct r as [|k| | |]; cbn [ret_eqb] in HR; try discriminate.
    apply N.eqb_eq in HR. subst k. cbn [spec_op].
    rewrite (class_size_count n rep q (nn v) R Hv), N.eqb_refl.
    eexists. split; [reflexivity|]. exists n, es, rank, rep. auto.
  - (* reset *)
    cbn [step] in H. unfold reset_call in H. destruct (alloc_overflow m); [discriminate|].
    rewrite reset_is_new in H. inversion H; subst s' rv. clear H.
    destruct r; cbn [ret_eqb] in HR; try discriminate. cbn [spec_op].
    eexists. split; [reflexivity|]. apply rel_new.
Qed.

(* ================================================================ part 4 *)
Section F2.
Context {A B : Type} (R : A -> B -> Prop).
Lemma Forall2_nth l l' i a : Forall2 R l l' -> nth_error l i = Some a ->
  exists b, nth_error l' i = Some b /\ R a b.
Proof.
  intros F; revert i; induction F as [|x y l l' Hxy F IH]; intros [|i] H; cbn in *; try discriminate.
  - inversion H; subst. eauto.
  - now apply IH.
Qed.
Lemma Forall2_nth_none l l' i : Forall2 R l l' -> nth_error l i = None -> nth_error l' i = None.
Proof.
  intros F; revert i; induction F as [|x y l l' Hxy F IH]; intros [|i] H; cbn in *; try discriminate; auto.
Qed.
Lemma Forall2_put l l' i a b : Forall2 R l l' -> R a b -> Forall2 R (put l i a) (put l' i b).
Proof.
  intros F Hab; revert i; induction F as [|x y l l' Hxy F IH]; intros [|i]; cbn; auto.
Qed.
End F2.

Lemma nth_error_put_eq {A} (l : list A) i x : i < length l -> nth_error (put l i x) i = Some x.
Proof. revert i; induction l as [|h t IH]; intros [|i] H; cbn in *; try lia; auto. apply IH; lia. Qed.

Lemma rel_snap s q x : Rel s q -> snap_eqb s x = true -> exists q', see_snap q x = Some q' /\ Rel s q'.
Proof.
  intros (n & es & rank & rep & G & R) H.
  destruct (see_snap_ok _ _ _ _ _ G q x R H) as (q' & E & R').
  exists q'. split; auto. exists n, es, rank, rep. auto.
Qed.

Lemma must_panic_spec cs qs o : Forall2 Rel cs qs ->
  match mstep cs (to_mop o) with
  | Ok _ => must_panic qs o = false
  | Panic => must_panic qs o = true
  | Fuel => True
  end.
Proof.
  intros F.
  assert (X : forall c, match nth_error cs c with
              | Some s => exists q, nth_error qs c = Some q /\ Rel s q
              | None => nth_error qs c = None end).
  { intros c. destruct (nth_error cs c) eqn:E.
    - eapply Forall2_nth; eauto. - eapply Forall2_nth_none; eauto. }
  destruct o as [c u v|c v|c u v|c v|c m|c]; unfold must_panic; cbn [to_mop mstep cidx];
    specialize (X (nn c)); destruct (nth_error cs (nn c)) as [s|];
    try (rewrite X; reflexivity);
    destruct X as (q & Eq & (n & es & rank & rep & G & R)); rewrite Eq; try reflexivity.
  - pose proof (step_outcome _ _ _ _ _ (Un (nn u) (nn v)) G) as O. cbn [in_range] in O.
    unfold inr_. rewrite (r_len _ _ _ R).
    destruct ((nn u <? n) && (nn v <? n)); [destruct O as (s' & r & E)|]; rewrite ?E, ?O; reflexivity.
  - pose proof (step_outcome _ _ _ _ _ (Par (nn v)) G) as O. cbn [in_range] in O.
    unfold inr_. rewrite (r_len _ _ _ R).
    destruct (nn v <? n); [destruct O as (s' & r & E)|]; rewrite ?E, ?O; reflexivity.
  - pose proof (step_outcome _ _ _ _ _ (Check (nn u) (nn v)) G) as O. cbn [in_range] in O.
    unfold inr_. rewrite (r_len _ _ _ R).
    destruct ((nn u <? n) && (nn v <? n)); [destruct O as (s' & r & E)|]; rewrite ?E, ?O; reflexivity.
  - pose proof (step_outcome _ _ _ _ _ (Size (nn v)) G) as O. cbn [in_range] in O.
    unfold inr_. rewrite (r_len _ _ _ R).
    destruct (nn v <? n); [destruct O as (s' & r & E)|]; rewrite ?E, ?O; reflexivity.
  - pose proof (step_outcome _ _ _ _ _ (Reset m) G) as O. cbn [in_range] in O.
    unfold reset_refused. rewrite <- alloc_overflow_pow.
    destruct (alloc_overflow m); cbn [negb] in O; [|destruct O as (s' & r & E)]; rewrite ?E, ?O; reflexivity.
Qed.

Lemma rel_opt_snap s q sn :
  Rel s q -> (forall x, sn = Some x -> snap_eqb s x = true) ->
  exists q', opt_snap q sn = Some q' /\ Rel s q'.
Proof.
  intros R H. destruct sn as [x|]; cbn [opt_snap]; [|eauto]. apply rel_snap; auto.
Qed.

Lemma rel_panic_state s q op : Rel s q -> Rel (panic_state s op) q.
Proof.
  intros (n & es & rank & rep & G & R).
  assert (P : forall u, Rel (match par s u with Ok (s1, _) => s1 | _ => s end) q).
  { intros u. destruct (Nat.ltb_spec u n) as [Hu|Hu].
    - destruct (par_spec _ _ _ _ _ G u Hu) as (s1 & E & G1 & _). rewrite E. exists n, es, rank, rep. auto.
    - rewrite (par_panic _ _ _ _ _ G u Hu). exists n, es, rank, rep. auto. }
  destruct op; cbn [panic_state]; auto; exists n, es, rank, rep; auto.
Qed.

Lemma snap_step_some last c s sn last' :
  snap_step last c s sn = Some last' -> forall x, sn = Some x -> snap_eqb s x = true.
Proof.
  unfold snap_step. intros H x Hx. subst sn.
  destruct (negb _ && snap_eqb s x) eqn:C; [|discriminate]. apply andb_true_iff in C. tauto.
Qed.

Lemma sim : forall ops os cs last qs csf,
  Forall2 Rel cs qs -> model_run cs last ops os = Some csf ->
  exists qsf, spec_run qs ops os = Some qsf /\ Forall2 Rel csf qsf.
Proof.
  induction ops as [|o ops IH]; intros [|[r sn] os] cs last qs csf F H; cbn [model_run] in H; try discriminate.
  - inversion H; subst. exists qs. split; auto.
  - cbn [spec_run]. cbv zeta. pose proof (must_panic_spec cs qs o F) as MP.
    destruct (mstep cs (to_mop o)) as [[[cs' c] rv]| |] eqn:M; [| |discriminate].
    + rewrite MP.
      destruct (ret_eqb rv r) eqn:HR; [|discriminate].
      destruct (nth_error cs' c) as [s'|] eqn:N; [|discriminate].
      destruct (snap_step last c s' sn) as [last'|] eqn:SS; [|discriminate].
      pose proof (snap_step_some _ _ _ _ _ SS) as SN1. rename H into SN2.
      destruct (is_clone o) eqn:IC.
      * (* clone *)
        destruct o as [? ? ?|? ?|? ? ?|? ?|? ?|ci]; try discriminate. cbn [to_mop mstep cidx] in *.
        destruct (nth_error cs (nn ci)) as [s|] eqn:E; [|discriminate].
        inversion M; subst cs' c rv. clear M.
        destruct (Forall2_nth _ _ _ _ _ F E) as (q & Eq & R). rewrite Eq.
        destruct r; cbn [ret_eqb] in HR; try discriminate. cbn [spec_op].
        rewrite nth_error_app2 in N by lia. rewrite Nat.sub_diag in N. cbn in N.
        inversion N; subst s'. rewrite clone_id in *.
        destruct (rel_opt_snap s q sn R SN1) as (q2 & E2 & R2). rewrite E2.
        apply (IH os (cs ++ [s]) last' (qs ++ [q2]) csf); auto.
        apply Forall2_app; auto.
      * (* a call on one copy *)
        assert (exists ci op, to_mop o = On ci op /\ cidx o = ci) as (ci & op & TO & CI)
          by (destruct o; try discriminate; cbn; eauto).
        rewrite TO in M. cbn [mstep] in M. rewrite CI.
        destruct (nth_error cs ci) as [s|] eqn:E; [|discriminate].
        destruct (step s op) as [[s1 rv1]| |] eqn:ST; try discriminate.
        inversion M; subst cs' c rv. clear M.
        rewrite nth_error_put_eq in N by (apply nth_error_Some; congruence).
        inversion N; subst s1. clear N.
        destruct (Forall2_nth _ _ _ _ _ F E) as (q & Eq & R). rewrite Eq.
        destruct (rel_step s q o s' rv1 r R IC) as (q1 & E1 & R1); [now rewrite TO|exact HR|].
        rewrite E1.
        destruct (rel_opt_snap s' q1 sn R1 SN1) as (q2 & E2 & R2). rewrite E2.
        apply (IH os (put cs ci s') last' (put qs ci q2) csf); auto.
        apply Forall2_put; auto.
    + (* the call panics: the history goes on with the value it left behind *)
      rewrite MP. destruct r; try discriminate.
      destruct (to_mop o) as [ci op|ci] eqn:TO.
      * assert (CI : cidx o = ci) by (destruct o; cbn [to_mop] in TO; inversion TO; reflexivity).
        rewrite CI.
        destruct (nth_error cs ci) as [s|] eqn:E.
        -- destruct (Forall2_nth _ _ _ _ _ F E) as (q & Eq & R). rewrite Eq.
           destruct (snap_step last ci (panic_state s op) sn) as [last'|] eqn:SS; [|discriminate].
           pose proof (snap_step_some _ _ _ _ _ SS) as SN1.
           destruct (rel_opt_snap _ q sn (rel_panic_state s q op R) SN1) as (q2 & E2 & R2). rewrite E2.
           apply (IH os (put cs ci (panic_state s op)) last' (put qs ci q2) csf); auto.
           apply Forall2_put; auto.
        -- rewrite (Forall2_nth_none _ _ _ _ F E).
           destruct sn; try discriminate. destruct os; try discriminate. inversion H; subst. eauto.
      * assert (CI : cidx o = ci) by (destruct o; cbn [to_mop] in TO; inversion TO; reflexivity).
        rewrite CI. cbn [mstep] in M.
        destruct (nth_error cs ci) as [s|] eqn:E; [discriminate|].
        rewrite (Forall2_nth_none _ _ _ _ F E).
        destruct sn; try discriminate. destruct os; try discriminate. inversion H; subst. eauto.
Qed.

Lemma finals_ok : forall csf qsf fin, Forall2 Rel csf qsf -> all2 snap_eqb csf fin = true ->
  all2 (fun q x => match see_snap q x with Some _ => true | None => false end) qsf fin = true.
Proof.
  intros csf qsf fin F; revert fin; induction F as [|s q csf qsf R F IH]; intros [|x fin] H; cbn in *;
    try discriminate; auto.
  apply andb_true_iff in H. destruct H as [H1 H2].
  destruct (rel_snap s q x R H1) as (q' & E & _). rewrite E. cbn. now apply IH.
Qed.

Theorem model_check_spec_check c : model_check c = true -> spec_check c = true.
Proof.
  unfold model_check, spec_check.
  destruct (model_run [new (nn (c_n c))] [None] (c_ops c) (c_obs c)) as [csf|] eqn:M; [|discriminate].
  intros A.
  destruct (sim _ _ _ _ [part_new (nn (c_n c))] _ (Forall2_cons _ _ (rel_new _) (Forall2_nil _)) M)
    as (qsf & E & F).
  rewrite E. now apply finals_ok with csf.
Qed.
