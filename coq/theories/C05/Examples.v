(** C05 — non-vacuity: the model runs on literals. *)
From Coq Require Import List Arith Bool.
From RlibV Require Import C05.Model C05.Spec.
Import ListNotations.

Example ex_un : un (new 4) 0 1 = Ok (mk [1;1;2;3] [1;2;1;1], true).
Proof. reflexivity. Qed.
Example ex_reset_grow : reset (mk [1;1] [1;2]) 3 = Ok (new 3).
Proof. reflexivity. Qed.
Example ex_reset_shrink : reset (mk [1;1;2;3] [1;2;1;1]) 2 = Ok (new 2).
Proof. reflexivity. Qed.
Example ex_panic : par (new 3) 3 = Panic.
Proof. reflexivity. Qed.
