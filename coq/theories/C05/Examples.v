(** C05 — non-vacuity: the model runs on literals, and every hypothesis of the property theorems
    ([reach], index bounds, [is_lookup], a returning [step], [chain], [class_card], [mreach]) has a
    concrete instance. *)
From Coq Require Import List Arith NArith Bool Lia.
From RlibV Require Import C05.Model C05.Spec C05.Corr C05.Properties.
Import ListNotations.

Definition s_any : dsu := mk [1;1;3;3] [1;2;1;2].
Example ex_un : un (new 4) 0 1 = Ok (mk [1;1;2;3] [1;2;1;1], true).
Proof. reflexivity. Qed.
Example ex_reset_grow : reset (mk [1;1] [1;2]) 3 = Ok (new 3).
Proof. reflexivity. Qed.
Example ex_reset_shrink : reset (mk [1;1;2;3] [1;2;1;1]) 2 = Ok (new 2).
Proof. reflexivity. Qed.
(** a reset that cannot get its buffer (usize::MAX, 2^60): it panics, the value is untouched; 2^60 - 1 would be granted *)
Example ex_reset_refused : step s_any (Reset 18446744073709551615%N) = Panic /\
                           step s_any (Reset 1152921504606846976%N) = Panic /\
                           panic_state s_any (Reset 1152921504606846976%N) = s_any /\
                           alloc_overflow 1152921504606846975%N = false.
Proof. repeat split; reflexivity. Qed.
Example ex_reset_refused_hyp : (9223372036854775807 < 1152921504606846976 * 8)%N /\ (3 * 8 <= 9223372036854775807)%N.
Proof. split; lia. Qed.
Example ex_panic : par (new 3) 3 = Panic.
Proof. reflexivity. Qed.
Example ex_panic_empty : par (new 0) 0 = Panic.
Proof. reflexivity. Qed.

(** the repository's unit-test scenario: un(0,1), un(2,3), un(1,3) on four elements *)
Definition s3 : dsu := mk [1;3;3;3] [1;2;1;4].
Definition es3 : list (nat * nat) := [(0,1);(2,3);(1,3)].

Example ex_reach : reach 4 es3 s3.
Proof.
  apply (reach_step 4 [(0,1);(2,3)] (mk [1;1;3;3] [1;2;1;2]) (Un 1 3) s3 (RB true)); [|reflexivity].
  apply (reach_step 4 [(0,1)] (mk [1;1;2;3] [1;2;1;1]) (Un 2 3) _ (RB true)); [|reflexivity].
  apply (reach_step 4 [] (new 4) (Un 0 1) _ (RB true)); [|reflexivity]. apply reach_new.
Qed.

(** a reset (shrinking) and a later union are reachable too *)
Example ex_reach_reset : reach 2 [(1,0)] (mk [0;0] [2;1]).
Proof.
  apply (reach_step 2 [] (new 2) (Un 1 0) _ (RB true)); [|reflexivity].
  apply (reach_step 4 es3 s3 (Reset 2%N) _ RU); [exact ex_reach|reflexivity].
Qed.

Example ex_lookup_step : is_lookup (Par 0) = true /\ step s3 (Par 0) = Ok (mk [3;3;3;3] [1;2;1;4], RN 3).
Proof. split; reflexivity. Qed.
Example ex_conn : conn es3 0 2.
Proof.
  apply conn_trans with 1; [apply conn_edge; cbn; auto|].
  apply conn_trans with 3; [apply conn_edge; cbn; auto|]. apply conn_sym, conn_edge; cbn; auto.
Qed.
(** element 0 sits at depth 2 = log2 4 below the root 3 *)
Example ex_chain : chain (p s3) 0 3 2.
Proof.
  apply chain_up with 1; [reflexivity|discriminate|].
  apply chain_up with 3; [reflexivity|discriminate|]. apply chain_root. reflexivity.
Qed.
Example ex_depth : 2 <= Nat.log2 4.
Proof. cbn. lia. Qed.

(** the theorems applied to the instance *)
Example ex_check : exists s' b, step s3 (Check 0 2) = Ok (s', RB b) /\ (b = true <-> conn es3 0 2).
Proof. apply (c05_partition 4 es3 s3 0 2 ex_reach); lia. Qed.
Example ex_size : exists s' k, step s3 (Size 0) = Ok (s', RN k) /\ class_card 4 es3 0 k.
Proof. apply (c05_size_is_cardinality 4 es3 s3 0 ex_reach); lia. Qed.

Example ex_mreach : mreach [mk [1;1] [1;2]; new 2].
Proof.
  apply (mreach_step [new 2; new 2] (On 0 (Un 0 1)) _ 0 (RB true)); [|reflexivity].
  apply (mreach_step [new 2] (Clone 0) _ 1 RU); [|reflexivity]. apply mreach_new.
Qed.

(** a history as a list, with a reset in the middle: the ghost state restarts at the reset *)
Example ex_run : run (new 4) [Un 0 1; Un 2 3; Reset 3%N; Un 2 0; Check 0 2; Size 1]
                 = Ok (mk [0;1;0] [2;1;1], [RB true; RB true; RU; RB true; RB true; RN 1]).
Proof. reflexivity. Qed.
Example ex_ghost_run : ghost_run 4 [] [Un 0 1; Un 2 3; Reset 3%N; Un 2 0; Check 0 2; Size 1] = (3, [(2,0)]).
Proof. reflexivity. Qed.

(** a correspondence case on which [model_check] holds (hypothesis of c05_model_check_implies_spec_check) *)
Example ex_case : model_check (mkcase d2 [NUn d0 d0 d1; NClone d0; NPar d1 d0]
                                 [(OB true, Some ([d1;d1],[d1;d2])); (OU, Some ([d1;d1],[d1;d2])); (ON d1, None)]
                                 [([d1;d1],[d1;d2]); ([d1;d1],[d1;d2])]) = true.
Proof. vm_compute. reflexivity. Qed.

(** a call with an index out of range panics, the history goes on with the value it left behind: [check 0 9] has
    compressed the path of element 0 before the find of 9 panicked *)
Example ex_case_panic :
  let c := mkcase d4 [NUn d0 d0 d1; NUn d0 d2 d3; NUn d0 d1 d3; NCheck d0 d0 d9; NPar d0 d0]
             [(OB true, Some ([d1;d1;d2;d3],[d1;d2;d1;d1])); (OB true, Some ([d1;d1;d3;d3],[d1;d2;d1;d2]));
              (OB true, Some ([d1;d3;d3;d3],[d1;d2;d1;d4])); (OP, Some ([d3;d3;d3;d3],[d1;d2;d1;d4])); (ON d3, None)]
             [([d3;d3;d3;d3],[d1;d2;d1;d4])] in
  model_check c = true /\ spec_check c = true.
Proof. vm_compute. split; reflexivity. Qed.
(** ... a call that should have panicked and answered instead, or a failed executor cross-check, is never accepted *)
Example ex_case_no_panic :
  let c := mkcase d2 [NUn d0 d2 d2] [(OB false, None)] [([d0;d1],[d1;d1])] in
  model_check c = false /\ spec_check c = false.
Proof. vm_compute. split; reflexivity. Qed.
Example ex_case_cross_check :
  let c := mkcase d2 [NReset d0 d2] [(OX, Some ([d0;d1],[d1;d1]))] [([d0;d1],[d1;d1])] in
  model_check c = false /\ spec_check c = false.
Proof. vm_compute. split; reflexivity. Qed.

(** a refused reset in the middle of a history: it must panic, the sizes and parents stay what the unions made them
    (first case: model and specification accept); a reset that has already rewritten the parents when it panics
    (second case: the arrays shown after the panic are p = identity, sz = old) is rejected by both *)
Example ex_case_reset_refused :
  let big := 18446744073709551615%N in
  let c := mkcase d4 [NUn d0 d0 d1; NUn d0 d2 d3; NUn d0 d0 d2; NReset d0 big; NSize d0 d1]
             [(OB true, Some ([d1;d1;d2;d3],[d1;d2;d1;d1])); (OB true, Some ([d1;d1;d3;d3],[d1;d2;d1;d2]));
              (OB true, Some ([d1;d3;d3;d3],[d1;d2;d1;d4])); (OP, None); (ON d4, None)]
             [([d1;d3;d3;d3],[d1;d2;d1;d4])] in
  let c' := mkcase d4 [NUn d0 d0 d1; NUn d0 d2 d3; NUn d0 d0 d2; NReset d0 big; NSize d0 d1]
             [(OB true, Some ([d1;d1;d2;d3],[d1;d2;d1;d1])); (OB true, Some ([d1;d1;d3;d3],[d1;d2;d1;d2]));
              (OB true, Some ([d1;d3;d3;d3],[d1;d2;d1;d4])); (OP, Some ([d0;d1;d2;d3],[d1;d2;d1;d4])); (ON d2, None)]
             [([d0;d1;d2;d3],[d1;d2;d1;d4])] in
  model_check c = true /\ spec_check c = true /\ model_check c' = false /\ spec_check c' = false.
Proof. vm_compute. repeat split; reflexivity. Qed.
(** ... and a refused reset that returned is rejected *)
Example ex_case_reset_no_panic :
  let c := mkcase d2 [NReset d0 1152921504606846976%N] [(OU, None)] [([d0;d1],[d1;d1])] in
  model_check c = false /\ spec_check c = false.
Proof. vm_compute. split; reflexivity. Qed.
Example ex_panic_state_reach : reach 4 es3 (panic_state s3 (Check 0 9)).
Proof. exact (c05_panic_state_reachable 4 es3 s3 (Check 0 9) ex_reach). Qed.

