(** C05 — correspondence cases.

    A case is one history on several live DSU values: the initial element count, the calls (each on
    a chosen live copy, or a clone), and what the implementation did: the value returned by every
    call (or a panic: the unwind is caught and the history goes on with the value the call left behind),
    a snapshot of the touched copy's hooked arrays [(p, sz)] whenever they differ from the last snapshot
    of that copy, and the arrays of every copy at the end.  [OX] stands for "a cross-check the executor
    makes on an auxiliary entry point failed" (Debug rendering after reset / clone / clone_from, see the
    executor); it is never accepted.

    [model_check]: the model (C05.Model) returns the same values and has the same arrays.
    [spec_check]: decided without the model, by replaying the unions on a naive partition (a list
    of class labels): check/un/size answers are exact, [par] answers are constrained only as far as
    the property goes (member of the class; one value per class; stable until a union joins the
    class), and every snapshot is a forest whose roots are class members, whose root sizes are the
    class cardinalities, and in which every parent chain has length <= log2 (class size).  A call with an
    index out of range must panic and must leave a value that still represents the same partition; so must a
    [reset n] with n >= 2^60 (the buffer request of n * 8 bytes exceeds isize::MAX: 'capacity overflow'): whatever
    the caller does with the value after catching the unwind, it is still the partition built so far.  Such an [n]
    is never converted to a unary number. *)
From Coq Require Import List Arith NArith Bool.
From RlibV Require Import Common.Batch C05.Model.
Import ListNotations.

Inductive nop :=
| NUn (c u v : N) | NPar (c v : N) | NCheck (c u v : N) | NSize (c v : N) | NReset (c n : N) | NClone (c : N).

(** returned value; [OP] = the call panicked; [OX] = an executor cross-check failed (never accepted) *)
Inductive oret := OB (b : bool) | ON (k : N) | OU | OP | OX.
Definition snap : Type := list N * list N.
Definition obs : Type := oret * option snap.

Record case := mkcase { c_n : N; c_ops : list nop; c_obs : list obs; c_final : list snap }.


(** small numbers by name: the case printer writes [d7] instead of a numeral (numeral notations are the slow part of
    reading a batch file) *)
Definition d0 : N := 0%N.
Definition d1 : N := 1%N.
Definition d2 : N := 2%N.
Definition d3 : N := 3%N.
Definition d4 : N := 4%N.
Definition d5 : N := 5%N.
Definition d6 : N := 6%N.
Definition d7 : N := 7%N.
Definition d8 : N := 8%N.
Definition d9 : N := 9%N.
Definition d10 : N := 10%N.
Definition d11 : N := 11%N.
Definition d12 : N := 12%N.
Definition d13 : N := 13%N.
Definition d14 : N := 14%N.
Definition d15 : N := 15%N.
Definition d16 : N := 16%N.
Definition d17 : N := 17%N.
Definition d18 : N := 18%N.
Definition d19 : N := 19%N.
Definition d20 : N := 20%N.
Definition d21 : N := 21%N.
Definition d22 : N := 22%N.
Definition d23 : N := 23%N.
Definition d24 : N := 24%N.
Definition d25 : N := 25%N.
Definition d26 : N := 26%N.
Definition d27 : N := 27%N.
Definition d28 : N := 28%N.
Definition d29 : N := 29%N.
Definition d30 : N := 30%N.
Definition d31 : N := 31%N.
Definition d32 : N := 32%N.
Definition d33 : N := 33%N.
Definition d34 : N := 34%N.
Definition d35 : N := 35%N.
Definition d36 : N := 36%N.
Definition d37 : N := 37%N.
Definition d38 : N := 38%N.
Definition d39 : N := 39%N.
Definition d40 : N := 40%N.
Definition d41 : N := 41%N.
Definition d42 : N := 42%N.
Definition d43 : N := 43%N.
Definition d44 : N := 44%N.
Definition d45 : N := 45%N.
Definition d46 : N := 46%N.
Definition d47 : N := 47%N.
Definition d48 : N := 48%N.
Definition d49 : N := 49%N.
Definition d50 : N := 50%N.
Definition d51 : N := 51%N.
Definition d52 : N := 52%N.
Definition d53 : N := 53%N.
Definition d54 : N := 54%N.
Definition d55 : N := 55%N.
Definition d56 : N := 56%N.
Definition d57 : N := 57%N.
Definition d58 : N := 58%N.
Definition d59 : N := 59%N.
Definition d60 : N := 60%N.
Definition d61 : N := 61%N.
Definition d62 : N := 62%N.
Definition d63 : N := 63%N.

Definition nn := N.to_nat.
Definition to_mop (o : nop) : mop :=
  match o with
  | NUn c u v => On (nn c) (Un (nn u) (nn v))
  | NPar c v => On (nn c) (Par (nn v))
  | NCheck c u v => On (nn c) (Check (nn u) (nn v))
  | NSize c v => On (nn c) (Size (nn v))
  | NReset c n => On (nn c) (Reset n)
  | NClone c => Clone (nn c)
  end.

Definition ret_eqb (r : ret) (o : oret) : bool :=
  match r, o with
  | RB a, OB b => Bool.eqb a b
  | RN a, ON b => N.eqb (N.of_nat a) b
  | RU, OU => true
  | _, _ => false
  end.

Definition lN_eqb (l : list nat) (m : list N) : bool := leqb N.eqb (map N.of_nat l) m.
Definition snap_eqb (s : dsu) (x : snap) : bool := lN_eqb (p s) (fst x) && lN_eqb (sz s) (snd x).

(* ------------------------------------------------------------------ model_check *)
(** [last] : the arrays most recently shown for each copy (None = never shown).  A snapshot is expected
    exactly when the touched copy's arrays differ from the last one shown. *)
Definition dsu_eqb (a b : dsu) : bool := leqb Nat.eqb (p a) (p b) && leqb Nat.eqb (sz a) (sz b).

(** the snapshot rule for the touched copy [c] whose arrays are now [s]; returns the new [last] *)
Definition snap_step (last : list (option dsu)) (c : nat) (s : dsu) (sn : option snap)
  : option (list (option dsu)) :=
  let shown := match nth_error last c with Some (Some s0) => dsu_eqb s0 s | _ => false end in
  let last0 := if length last <=? c then last ++ [None] else last in
  match sn with
  | None => if shown then Some last0 else None
  | Some x => if negb shown && snap_eqb s x then Some (put last0 c (Some s)) else None
  end.

Fixpoint model_run (cs : list dsu) (last : list (option dsu)) (ops : list nop) (os : list obs)
  : option (list dsu) :=     (* None = disagreement; Some cs = agreed so far, cs = final copies *)
  match ops, os with
  | [], [] => Some cs
  | o :: ops', (r, sn) :: os' =>
      match mstep cs (to_mop o) with
      | Fuel => None
      | Panic =>
          (* the implementation must panic too; the history goes on with the value the call left behind *)
          match r with
          | OP =>
              match to_mop o with
              | On c op =>
                  match nth_error cs c with
                  | Some s =>
                      let s' := panic_state s op in
                      match snap_step last c s' sn with
                      | Some last' => model_run (put cs c s') last' ops' os'
                      | None => None
                      end
                  | None => match sn, os' with None, [] => Some [] | _, _ => None end   (* no such copy: the executor dies *)
                  end
              | Clone _ => match sn, os' with None, [] => Some [] | _, _ => None end
              end
          | _ => None
          end
      | Ok (cs', c, rv) =>
          if ret_eqb rv r then
            match nth_error cs' c with
            | None => None
            | Some s =>
                match snap_step last c s sn with
                | Some last' => model_run cs' last' ops' os'
                | None => None
                end
            end
          else None
      end
  | _, _ => None
  end.

Fixpoint all2 {A B} (f : A -> B -> bool) (l : list A) (m : list B) : bool :=
  match l, m with
  | [], [] => true
  | a :: l', b :: m' => f a b && all2 f l' m'
  | _, _ => false
  end.

Definition model_check (c : case) : bool :=
  match model_run [new (nn (c_n c))] [None] (c_ops c) (c_obs c) with
  | None => false
  | Some cs => all2 snap_eqb cs (c_final c)
  end.

(* ------------------------------------------------------------------ spec_check (no model function below) *)
(** naive partition of one copy: [lab] gives every element a class label; [known l] is the
    representative seen for the class labelled [l] since the last union that joined it *)
Record part := mkpart { lab : list nat; known : list (option nat) }.

Definition part_new (n : nat) : part := mkpart (seq 0 n) (repeat None n).
Definition labof (q : part) (v : nat) : nat := nth v (lab q) 0.
Definition inr_ (q : part) (v : nat) : bool := v <? length (lab q).
Definition class_size (q : part) (v : nat) : nat :=
  length (filter (fun l => l =? labof q v) (lab q)).
Definition part_union (q : part) (u v : nat) : part :=
  let lu := labof q u in let lv := labof q v in
  if lu =? lv then q
  else mkpart (map (fun l => if l =? lu then lv else l) (lab q))
              (put (put (known q) lu None) lv None).
(** a representative [r] is reported for [v]: allowed?  and remember it *)
Definition see_rep (q : part) (v r : nat) : option part :=
  if inr_ q r && (labof q r =? labof q v) then
    match nth (labof q v) (known q) None with
    | None => Some (mkpart (lab q) (put (known q) (labof q v) (Some r)))
    | Some r0 => if r0 =? r then Some q else None
    end
  else None.

(** walk the observed parent array from [v]: Some (root, steps) or None (out of range / no root within fuel) *)
Fixpoint walk (fuel : nat) (pa : list nat) (v : nat) (steps : N) : option (nat * N) :=
  match fuel with
  | O => None
  | S f => match nth_error pa v with
           | None => None
           | Some pv => if pv =? v then Some (v, steps) else walk f pa pv (N.succ steps)
           end
  end.

(** snapshot of a copy against its partition *)
Definition see_snap (q : part) (x : snap) : option part :=
  let pa := map nn (fst x) in let sa := map nn (snd x) in
  let n := length (lab q) in
  if (length pa =? n) && (length sa =? n) then
    fold_left (fun (acc : option part) (v : nat) =>
      match acc with
      | None => None
      | Some q1 =>
          match walk (S n) pa v 0%N with
          | None => None
          | Some (r, d) =>
              let k := class_size q1 v in
              if (N.leb d (N.log2 (N.of_nat k))) && (nth r sa 0 =? k) then see_rep q1 v r else None
          end
      end) (seq 0 n) (Some q)
  else None.

Definition opt_snap (q : part) (sn : option snap) : option part :=
  match sn with None => Some q | Some x => see_snap q x end.

Definition cidx (o : nop) : nat :=
  match o with NUn c _ _ | NPar c _ | NCheck c _ _ | NSize c _ | NReset c _ | NClone c => nn c end.

(** a reset to this many elements cannot get its buffer: n >= 2^60 *)
Definition reset_refused (n : N) : bool := (1152921504606846976 <=? n)%N.

(** must this call panic? (index out of range; a reset that cannot get its buffer; a copy index that does not exist) *)
Definition must_panic (qs : list part) (o : nop) : bool :=
  match nth_error qs (cidx o) with
  | None => true
  | Some q =>
      match o with
      | NUn _ u v | NCheck _ u v => negb (inr_ q (nn u) && inr_ q (nn v))
      | NPar _ v | NSize _ v => negb (inr_ q (nn v))
      | NReset _ n => reset_refused n
      | NClone _ => false
      end
  end.

(** one call on the partition [q] of the copy it addresses, given the value the implementation returned *)
Definition spec_op (q : part) (o : nop) (r : oret) : option part :=
  match o, r with
  | NUn _ u v, OB b =>
      if Bool.eqb b (negb (labof q (nn u) =? labof q (nn v))) then Some (part_union q (nn u) (nn v)) else None
  | NCheck _ u v, OB b =>
      if Bool.eqb b (labof q (nn u) =? labof q (nn v)) then Some q else None
  | NSize _ v, ON k =>
      if N.eqb k (N.of_nat (class_size q (nn v))) then Some q else None
  | NPar _ v, ON k => see_rep q (nn v) (nn k)
  | NReset _ n, OU => Some (part_new (nn n))
  | NClone _, OU => Some q
  | _, _ => None
  end.

Definition is_clone (o : nop) : bool := match o with NClone _ => true | _ => false end.

Fixpoint spec_run (qs : list part) (ops : list nop) (os : list obs) : option (list part) :=
  match ops, os with
  | [], [] => Some qs
  | o :: ops', (r, sn) :: os' =>
      let c := cidx o in
      if must_panic qs o then
        (* it must panic, and the value it leaves must still be a forest for the unchanged partition *)
        match r with
        | OP =>
            match nth_error qs c with
            | Some q =>
                match opt_snap q sn with
                | None => None
                | Some q2 => spec_run (put qs c q2) ops' os'
                end
            | None => match sn, os' with None, [] => Some [] | _, _ => None end
            end
        | _ => None
        end
      else
        match nth_error qs c with
        | None => None
        | Some q =>
            match spec_op q o r with
            | None => None
            | Some q1 =>
                match opt_snap q1 sn with
                | None => None
                | Some q2 => spec_run (if is_clone o then qs ++ [q2] else put qs c q2) ops' os'
                end
            end
        end
  | _, _ => None
  end.

Definition spec_check (c : case) : bool :=
  match spec_run [part_new (nn (c_n c))] (c_ops c) (c_obs c) with
  | None => false
  | Some qs =>
      all2 (fun q x => match see_snap q x with Some _ => true | None => false end) qs (c_final c)
  end.

(* ------------------------------------------------------------------ replay files *)
(** what the model returns on the calls of a case: returned values (as [oret]) and the touched copy's arrays *)
Fixpoint explain_run (cs : list dsu) (ops : list nop) : list (oret * list N * list N) :=
  match ops with
  | [] => []
  | o :: ops' =>
      match mstep cs (to_mop o) with
      | Ok (cs', c, rv) =>
          let r := match rv with RB b => OB b | RN k => ON (N.of_nat k) | RU => OU end in
          let s := nth c cs' (mk [] []) in
          (r, map N.of_nat (p s), map N.of_nat (sz s)) :: explain_run cs' ops'
      | Panic =>
          match to_mop o with
          | On c op =>
              match nth_error cs c with
              | Some s => let s' := panic_state s op in
                          (OP, map N.of_nat (p s'), map N.of_nat (sz s')) :: explain_run (put cs c s') ops'
              | None => [(OP, [], [])]
              end
          | Clone _ => [(OP, [], [])]
          end
      | Fuel => [(OX, [], [])]
      end
  end.
Definition explain (c : case) := explain_run [new (nn (c_n c))] (c_ops c).
