(** C05 — basic lemmas: checked vector access, reset. *)
From Coq Require Import List Arith NArith Bool Lia.
From RlibV Require Import C05.Model C05.Spec.
Import ListNotations.

Lemma upd_length l i x : length (upd l i x) = length l.
Proof. revert i; induction l as [|h t IH]; intros [|i]; cbn; auto. Qed.

Lemma nth_error_upd_eq l i x : i < length l -> nth_error (upd l i x) i = Some x.
Proof.
  revert i; induction l as [|h t IH]; intros [|i] H; cbn in *; try lia; auto. apply IH; lia.
Qed.

Lemma nth_error_upd_ne l i j x : i <> j -> nth_error (upd l i x) j = nth_error l j.
Proof.
  revert i j; induction l as [|h t IH]; intros [|i] [|j] H; cbn; auto; try lia.
Qed.

Lemma resize_length l n d : length (resize l n d) = n.
Proof. unfold resize. rewrite app_length, firstn_length, repeat_length. lia. Qed.

Lemma upd_app_len pre h rest x :
  upd (pre ++ h :: rest) (length pre) x = pre ++ x :: rest.
Proof. induction pre as [|h' t IH]; cbn; [reflexivity|]. now rewrite IH. Qed.

Lemma fill_seq f : forall k a pre rest,
  length pre = a -> length rest = k ->
  fill f (seq a k) (pre ++ rest) = Ok (pre ++ map f (seq a k)).
Proof.
  induction k as [|k IH]; intros a pre rest Ha Hk.
  - destruct rest; [|discriminate]. reflexivity.
  - destruct rest as [|h rest]; [discriminate|]. cbn [seq fill map].
    unfold set. rewrite app_length. cbn [length].
    destruct (a <? length pre + S (length rest)) eqn:E; [|apply Nat.ltb_ge in E; lia].
    cbn [bind].
    subst a. rewrite upd_app_len.
    replace (pre ++ f (length pre) :: rest) with ((pre ++ [f (length pre)]) ++ rest) by now rewrite <- app_assoc.
    rewrite (IH (S (length pre)) (pre ++ [f (length pre)]) rest).
    + now rewrite <- app_assoc.
    + rewrite app_length; cbn; lia.
    + cbn in Hk; lia.
Qed.

Lemma fill_all f l n : length l = n -> fill f (seq 0 n) l = Ok (map f (seq 0 n)).
Proof. intros H. apply (fill_seq f n 0 [] l); auto. Qed.

Lemma map_const_seq (c : nat) a n : map (fun _ => c) (seq a n) = repeat c n.
Proof. revert a; induction n as [|n IH]; intros a; cbn; [reflexivity|]. now rewrite IH. Qed.

Lemma reset_is_new s n : reset s n = Ok (new n).
Proof.
  unfold reset. rewrite fill_all by apply resize_length. cbn [bind].
  rewrite fill_all by apply resize_length. cbn [bind].
  unfold new. now rewrite map_id, map_const_seq.
Qed.

(** the refused buffer request: [reset] panics, nothing is written *)
Lemma alloc_overflow_spec n : alloc_overflow n = true <-> (isize_max < n * 8)%N.
Proof. unfold alloc_overflow. apply N.ltb_lt. Qed.

Lemma alloc_overflow_pow n : alloc_overflow n = (1152921504606846976 <=? n)%N.
Proof.
  unfold alloc_overflow, isize_max.
  destruct (N.ltb_spec 9223372036854775807 (n * 8)), (N.leb_spec 1152921504606846976 n); auto; lia.
Qed.

Lemma reset_alloc_overflow s n : (isize_max < n * 8)%N ->
  step s (Reset n) = Panic /\ panic_state s (Reset n) = s.
Proof.
  intros H. apply alloc_overflow_spec in H. cbn [step panic_state]. unfold reset_call. rewrite H. auto.
Qed.

Lemma reset_fits s n : (n * 8 <= isize_max)%N -> step s (Reset n) = Ok (new (N.to_nat n), RU).
Proof.
  intros H. cbn [step]. unfold reset_call.
  destruct (alloc_overflow n) eqn:E; [apply alloc_overflow_spec in E; lia|].
  now rewrite reset_is_new.
Qed.

