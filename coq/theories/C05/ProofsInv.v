(** C05 — the invariant [Ghost] is established by [new] and preserved by every call.

    Part 1: checked access lemmas, [conn], consequences of the invariant, [par] (path compression keeps the
    ghost [rank] and [rep] unchanged).  Part 2: linking two roots (union by size is used for 2^rank <= size).
    Part 3: every call; [reach n es s -> Inv n es s]. *)
From Coq Require Import List Arith Bool Lia.
From RlibV Require Import C05.Model C05.Spec C05.Proofs.
Import ListNotations.

(* ================================================================ part 1 *)
Lemma get_ok l i : i < length l -> get l i = Ok (nth i l 0).
Proof.
  intros H. unfold get. destruct (nth_error l i) as [x|] eqn:E.
  - now rewrite (nth_error_nth _ _ _ E).
  - apply nth_error_None in E. lia.
Qed.

Lemma get_panic l i : length l <= i -> get l i = Panic.
Proof. intros H. unfold get. apply nth_error_None in H. now rewrite H. Qed.

Lemma set_ok l i x : i < length l -> set l i x = Ok (upd l i x).
Proof. intros H. unfold set. apply Nat.ltb_lt in H. now rewrite H. Qed.

Lemma nth_upd_eq l i x : i < length l -> nth i (upd l i x) 0 = x.
Proof. intros H. apply nth_error_nth. now apply nth_error_upd_eq. Qed.

Lemma nth_upd_ne l i j x : i <> j -> nth j (upd l i x) 0 = nth j l 0.
Proof.
  intros H. destruct (Nat.lt_ge_cases j (length l)) as [Hj|Hj].
  - apply nth_error_nth. rewrite nth_error_upd_ne by exact H. now apply nth_error_nth'.
  - rewrite !nth_overflow; auto. now rewrite upd_length.
Qed.

(* ---------------------------------------------------------------- conn *)
Lemma conn_incl es es' x y : incl es es' -> conn es x y -> conn es' x y.
Proof.
  intros Hi H. induction H as [x|x y H|x y _ IH|x y z _ IH1 _ IH2].
  - apply conn_refl. - apply conn_edge, Hi, H. - now apply conn_sym. - now apply conn_trans with y.
Qed.

Lemma conn_rep_eq es (rep : nat -> nat) :
  (forall x y, In (x, y) es -> rep x = rep y) -> forall x y, conn es x y -> rep x = rep y.
Proof.
  intros He x y H. induction H as [x|x y H|x y _ IH|x y z _ IH1 _ IH2]; auto. congruence.
Qed.

Lemma filter_len_le {A} (f : A -> bool) l : length (filter f l) <= length l.
Proof. induction l as [|h t IH]; cbn; [lia|]. destruct (f h); cbn; lia. Qed.

Section WithGhost.
Variables (n : nat) (es : list (nat * nat)) (s : dsu) (rank rep : nat -> nat).
Hypothesis G : Ghost n es s rank rep.

Lemma ghost_conn_iff x y : x < n -> y < n -> (rep x = rep y <-> conn es x y).
Proof.
  intros Hx Hy. split.
  - intros E. apply conn_trans with (rep x); [now apply (g_conn _ _ _ _ _ G)|].
    rewrite E. apply conn_sym. now apply (g_conn _ _ _ _ _ G).
  - apply conn_rep_eq. intros a b Hab. now apply (g_edges _ _ _ _ _ G) in Hab.
Qed.

Lemma rep_idem v : v < n -> rep (rep v) = rep v.
Proof.
  intros Hv. destruct (g_rep_root _ _ _ _ _ G v Hv) as [H1 H2].
  now apply (g_root_rep _ _ _ _ _ G).
Qed.

Lemma rank_lt_rep v : v < n -> nth v (p s) 0 <> v -> rank v < rank (rep v).
Proof.
  intros Hv Hne. pose proof (g_rank _ _ _ _ _ G v Hv Hne) as H1.
  pose proof (g_range _ _ _ _ _ G v Hv) as H2.
  pose proof (g_rank_rep _ _ _ _ _ G _ H2) as H3.
  rewrite (g_rep_par _ _ _ _ _ G v Hv) in H3. lia.
Qed.

Lemma count_rep_le r : count_rep n rep r <= n.
Proof.
  unfold count_rep. etransitivity; [apply filter_len_le|]. now rewrite seq_length.
Qed.

Lemma rank_rep_lt_n v : v < n -> rank (rep v) < n.
Proof.
  intros Hv. destruct (g_rep_root _ _ _ _ _ G v Hv) as [H1 H2].
  destruct (g_size _ _ _ _ _ G _ H1 H2) as [H3 H4].
  pose proof (count_rep_le (rep v)). pose proof (Nat.pow_gt_lin_r 2 (rank (rep v))). lia.
Qed.

Lemma par_rec_ok : forall fuel v, v < n -> rank (rep v) - rank v < fuel ->
  match par_rec fuel (p s) v with
  | Ok (p', r) => r = rep v /\ length p' = n /\
      (forall w, w < n -> nth w p' 0 = nth w (p s) 0 \/ nth w p' 0 = rep w)
  | _ => False
  end.
Proof.
  induction fuel as [|f IH]; intros v Hv Hf; [lia|].
  cbn [par_rec]. pose proof (g_lenp _ _ _ _ _ G) as Hl.
  rewrite get_ok by lia. cbn [bind].
  destruct (nth v (p s) 0 =? v) eqn:E; cbn [negb].
  - apply Nat.eqb_eq in E. cbn [bind].
    rewrite E. rewrite (g_root_rep _ _ _ _ _ G v Hv E).
    repeat split; auto.
  - apply Nat.eqb_neq in E. cbn [bind].
    pose proof (g_range _ _ _ _ _ G v Hv) as Hr.
    pose proof (g_rank _ _ _ _ _ G v Hv E) as Hk.
    pose proof (g_rank_rep _ _ _ _ _ G _ Hr) as Hk2.
    pose proof (g_rep_par _ _ _ _ _ G v Hv) as Hp.
    specialize (IH (nth v (p s) 0) Hr).
    destruct (par_rec f (p s) (nth v (p s) 0)) as [[p1 r]| |].
    2,3: apply IH; rewrite Hp in *; lia.
    destruct IH as (E1 & L1 & C1); [rewrite Hp in *; lia|].
    rewrite Hp in E1. subst r.
    rewrite set_ok by lia. cbn [bind].
    rewrite get_ok by (rewrite upd_length; lia). cbn [bind].
    rewrite nth_upd_eq by lia.
    repeat split.
    + rewrite upd_length; lia.
    + intros w Hw. destruct (Nat.eq_dec v w) as [->|Hne].
      * right. apply nth_upd_eq; lia.
      * rewrite nth_upd_ne by exact Hne. now apply C1.
Qed.

Lemma ghost_compress p' :
  length p' = n -> (forall w, w < n -> nth w p' 0 = nth w (p s) 0 \/ nth w p' 0 = rep w) ->
  Ghost n es (mk p' (sz s)) rank rep.
Proof.
  intros L C.
  assert (Hroot : forall w, w < n -> nth w p' 0 = w -> nth w (p s) 0 = w).
  { intros w Hw E. destruct (C w Hw) as [H|H]; [congruence|].
    destruct (g_rep_root _ _ _ _ _ G w Hw) as [_ H2]. congruence. }
  constructor; cbn [p sz].
  - exact L.
  - apply (g_lensz _ _ _ _ _ G).
  - intros v Hv. destruct (C v Hv) as [H|H]; rewrite H.
    + now apply (g_range _ _ _ _ _ G). + now apply (g_rep_root _ _ _ _ _ G).
  - intros v Hv Hne. destruct (C v Hv) as [H|H]; rewrite H in *.
    + now apply (g_rank _ _ _ _ _ G).
    + apply rank_lt_rep; auto. intros E. apply Hne. now apply (g_root_rep _ _ _ _ _ G).
  - intros v Hv. destruct (C v Hv) as [H|H]; rewrite H.
    + now apply (g_rep_par _ _ _ _ _ G). + now apply rep_idem.
  - intros v Hv. destruct (g_rep_root _ _ _ _ _ G v Hv) as [H1 H2]. split; auto.
    destruct (C _ H1) as [H|H]; rewrite H; auto. now apply rep_idem.
  - intros v Hv E. apply (g_root_rep _ _ _ _ _ G); auto.
  - apply (g_rank_rep _ _ _ _ _ G).
  - intros r Hr E. apply (g_size _ _ _ _ _ G); auto.
  - apply (g_edges _ _ _ _ _ G).
  - apply (g_conn _ _ _ _ _ G).
Qed.

Lemma par_spec v : v < n ->
  exists s', par s v = Ok (s', rep v) /\ Ghost n es s' rank rep /\ sz s' = sz s.
Proof.
  intros Hv. unfold par, par_fuel.
  pose proof (par_rec_ok (S (length (p s))) v Hv) as H.
  destruct (par_rec (S (length (p s))) (p s) v) as [[p' r]| |].
  2,3: exfalso; apply H; rewrite (g_lenp _ _ _ _ _ G); pose proof (rank_rep_lt_n v Hv); lia.
  destruct H as (E & L & C).
  { rewrite (g_lenp _ _ _ _ _ G). pose proof (rank_rep_lt_n v Hv). lia. }
  subst r. exists (mk p' (sz s)). split; [reflexivity|]. split; [|reflexivity]. now apply ghost_compress.
Qed.

Lemma par_panic v : n <= v -> par s v = Panic.
Proof.
  intros Hv. unfold par, par_fuel. cbn [par_rec]. rewrite get_panic; [reflexivity|].
  rewrite (g_lenp _ _ _ _ _ G). exact Hv.
Qed.
End WithGhost.

(* ================================================================ part 2 *)
Ltac eqbs := repeat (match goal with |- context [?x =? ?y] => destruct (Nat.eqb_spec x y) | H : context [?x =? ?y] |- _ => destruct (Nat.eqb_spec x y) end; cbv iota in *).

Lemma count_link (rep : nat -> nat) a b l : a <> b ->
  length (filter (fun x => (if rep x =? a then b else rep x) =? b) l)
  = length (filter (fun x => rep x =? b) l) + length (filter (fun x => rep x =? a) l).
Proof.
  intros Hab. induction l as [|h t IH]; cbn [filter length]; [reflexivity|].
  eqbs; cbn [length]; lia.
Qed.

Lemma count_other (rep : nat -> nat) a b r l : r <> a -> r <> b ->
  length (filter (fun x => (if rep x =? a then b else rep x) =? r) l)
  = length (filter (fun x => rep x =? r) l).
Proof.
  intros Ha Hb. induction l as [|h t IH]; cbn [filter length]; [reflexivity|].
  eqbs; cbn [length]; lia.
Qed.

Lemma ghost_same_edge n es s rank rep u v :
  Ghost n es s rank rep -> u < n -> v < n -> rep u = rep v ->
  Ghost n (es ++ [(u, v)]) s rank rep.
Proof.
  intros G Hu Hv E. destruct G. constructor; auto.
  - intros x y Hin. apply in_app_or in Hin. destruct Hin as [Hin|[Hin|[]]]; auto.
    inversion Hin; subst. auto.
  - intros x Hx. apply conn_incl with es; auto. apply incl_appl, incl_refl.
Qed.

Lemma ghost_link n es s rank rep a b u v :
  Ghost n es s rank rep -> a < n -> b < n -> nth a (p s) 0 = a -> nth b (p s) 0 = b -> a <> b ->
  nth a (sz s) 0 <= nth b (sz s) 0 ->
  u < n -> v < n -> (rep u = a /\ rep v = b \/ rep u = b /\ rep v = a) ->
  Ghost n (es ++ [(u, v)]) (mk (upd (p s) a b) (upd (sz s) b (nth b (sz s) 0 + nth a (sz s) 0)))
    (fun w => if w =? b then Nat.max (rank b) (S (rank a)) else rank w)
    (fun w => if rep w =? a then b else rep w).
Proof.
  intros G Ha Hb Ra Rb Hab Hsz Hu Hv Huv.
  pose proof (g_root_rep _ _ _ _ _ G a Ha Ra) as Ea.
  pose proof (g_root_rep _ _ _ _ _ G b Hb Rb) as Eb.
  pose proof (g_lenp _ _ _ _ _ G) as Lp. pose proof (g_lensz _ _ _ _ _ G) as Ls.
  assert (Pa : nth a (upd (p s) a b) 0 = b) by (apply nth_upd_eq; lia).
  assert (Pn : forall w, w <> a -> nth w (upd (p s) a b) 0 = nth w (p s) 0)
    by (intros w Hw; apply nth_upd_ne; auto).
  constructor; cbn [p sz].
  - rewrite upd_length; auto.
  - rewrite upd_length; auto.
  - intros w Hw. destruct (Nat.eq_dec w a) as [->|Hne]; [now rewrite Pa|].
    rewrite Pn by auto. now apply (g_range _ _ _ _ _ G).
  - intros w Hw. destruct (Nat.eq_dec w a) as [->|Hne].
    + rewrite Pa. intros _. eqbs; try lia.
    + rewrite Pn by auto. intros Hr.
      pose proof (g_rank _ _ _ _ _ G w Hw Hr). eqbs; subst; try lia; try congruence.
  - intros w Hw. destruct (Nat.eq_dec w a) as [->|Hne].
    + rewrite Pa, Ea, Eb. eqbs; congruence.
    + rewrite Pn by auto. now rewrite (g_rep_par _ _ _ _ _ G w Hw).
  - intros w Hw. destruct (g_rep_root _ _ _ _ _ G w Hw) as [H1 H2].
    destruct (Nat.eqb_spec (rep w) a) as [E|E].
    + split; auto. rewrite Pn by auto. exact Rb.
    + split; auto. rewrite Pn by auto. exact H2.
  - intros w Hw. destruct (Nat.eq_dec w a) as [->|Hne].
    + rewrite Pa. intros; congruence.
    + rewrite Pn by auto. intros Hr. rewrite (g_root_rep _ _ _ _ _ G w Hw Hr).
      eqbs; congruence.
  - intros w Hw. pose proof (g_rank_rep _ _ _ _ _ G w Hw) as Hk.
    eqbs; try lia; try congruence;
      match goal with H : rep w = _ |- _ => rewrite H in Hk end; lia.
  - intros r Hr. destruct (Nat.eq_dec r a) as [->|Hne]; [rewrite Pa; intros; congruence|].
    rewrite Pn by auto. intros Rr.
    destruct (g_size _ _ _ _ _ G r Hr Rr) as [S1 S2].
    destruct (g_size _ _ _ _ _ G a Ha Ra) as [A1 A2].
    destruct (g_size _ _ _ _ _ G b Hb Rb) as [B1 B2].
    destruct (Nat.eqb_spec r b) as [->|Hnb].
    + rewrite nth_upd_eq by lia. split.
      * destruct (Nat.max_spec (rank b) (S (rank a))) as [[_ ->]|[_ ->]]; [|lia].
        rewrite Nat.pow_succ_r'. lia.
      * unfold count_rep in *. rewrite count_link by auto. lia.
    + rewrite nth_upd_ne by auto. split; auto.
      unfold count_rep in *. rewrite count_other by auto. exact S2.
  - intros x y Hin. apply in_app_or in Hin. destruct Hin as [Hin|[Hin|[]]].
    + destruct (g_edges _ _ _ _ _ G x y Hin) as (Hx & Hy & E). repeat split; auto. now rewrite E.
    + inversion Hin; subst x y. repeat split; auto.
      destruct Huv as [[-> ->]|[-> ->]]; eqbs; congruence.
  - intros x Hx.
    assert (Hinc : incl es (es ++ [(u, v)])) by apply incl_appl, incl_refl.
    pose proof (conn_incl _ _ _ _ Hinc (g_conn _ _ _ _ _ G x Hx)) as Cx.
    destruct (Nat.eqb_spec (rep x) a) as [E|E]; auto.
    apply conn_trans with (rep x); auto. rewrite E.
    pose proof (conn_incl _ _ _ _ Hinc (g_conn _ _ _ _ _ G u Hu)) as Cu.
    pose proof (conn_incl _ _ _ _ Hinc (g_conn _ _ _ _ _ G v Hv)) as Cv.
    assert (Cuv : conn (es ++ [(u, v)]) u v) by (apply conn_edge, in_or_app; right; now left).
    destruct Huv as [[E1 E2]|[E1 E2]]; rewrite E1 in Cu; rewrite E2 in Cv.
    + apply conn_trans with u; [now apply conn_sym|]. now apply conn_trans with v.
    + apply conn_sym. apply conn_trans with u; [now apply conn_sym|]. now apply conn_trans with v.
Qed.

(* ================================================================ part 3 *)
Section Ops.
Variables (n : nat) (es : list (nat * nat)) (s : dsu) (rank rep : nat -> nat).
Hypothesis G : Ghost n es s rank rep.

Lemma un_spec u v : u < n -> v < n ->
  exists s' rank' rep',
    un s u v = Ok (s', negb (rep u =? rep v)) /\ Ghost n (es ++ [(u, v)]) s' rank' rep'.
Proof.
  intros Hu Hv. unfold un.
  destruct (par_spec _ _ _ _ _ G u Hu) as (s1 & E1 & G1 & Z1). rewrite E1.
  destruct (par_spec _ _ _ _ _ G1 v Hv) as (s2 & E2 & G2 & Z2). rewrite E2.
  destruct (Nat.eqb_spec (rep u) (rep v)) as [E|E]; cbn [negb].
  - exists s2, rank, rep. split; [reflexivity|]. now apply ghost_same_edge.
  - destruct (g_rep_root _ _ _ _ _ G2 u Hu) as [Ru1 Ru2].
    destruct (g_rep_root _ _ _ _ _ G2 v Hv) as [Rv1 Rv2].
    pose proof (g_lenp _ _ _ _ _ G2) as Lp. pose proof (g_lensz _ _ _ _ _ G2) as Ls.
    rewrite !get_ok by lia. cbn [bind].
    destruct (nth (rep v) (sz s2) 0 <? nth (rep u) (sz s2) 0) eqn:C.
    + apply Nat.ltb_lt in C. rewrite !get_ok by lia. cbn [bind].
      rewrite (set_ok (sz s2)) by lia. cbn [bind]. rewrite (set_ok (p s2)) by lia. cbn [bind].
      do 3 eexists. split; [reflexivity|].
      apply ghost_link; [exact G2|..]; auto; lia.
    + apply Nat.ltb_ge in C. rewrite !get_ok by lia. cbn [bind].
      rewrite (set_ok (sz s2)) by lia. cbn [bind]. rewrite (set_ok (p s2)) by lia. cbn [bind].
      do 3 eexists. split; [reflexivity|].
      apply ghost_link; [exact G2|..]; auto; lia.
Qed.

Lemma un_panic u v : n <= u \/ n <= v -> un s u v = Panic.
Proof.
  intros H. unfold un. destruct (Nat.lt_ge_cases u n) as [Hu|Hu].
  - destruct (par_spec _ _ _ _ _ G u Hu) as (s1 & E1 & G1 & Z1). rewrite E1.
    rewrite (par_panic _ _ _ _ _ G1 v) by lia. reflexivity.
  - now rewrite (par_panic _ _ _ _ _ G u Hu).
Qed.

Lemma check_spec u v : u < n -> v < n ->
  exists s', check s u v = Ok (s', rep u =? rep v) /\ Ghost n es s' rank rep /\ sz s' = sz s.
Proof.
  intros Hu Hv. unfold check.
  destruct (par_spec _ _ _ _ _ G u Hu) as (s1 & E1 & G1 & Z1). rewrite E1.
  destruct (par_spec _ _ _ _ _ G1 v Hv) as (s2 & E2 & G2 & Z2). rewrite E2.
  exists s2. split; [reflexivity|split; [exact G2|congruence]].
Qed.

Lemma check_panic u v : n <= u \/ n <= v -> check s u v = Panic.
Proof.
  intros H. unfold check. destruct (Nat.lt_ge_cases u n) as [Hu|Hu].
  - destruct (par_spec _ _ _ _ _ G u Hu) as (s1 & E1 & G1 & Z1). rewrite E1.
    rewrite (par_panic _ _ _ _ _ G1 v) by lia. reflexivity.
  - now rewrite (par_panic _ _ _ _ _ G u Hu).
Qed.

Lemma size_spec v : v < n ->
  exists s', size s v = Ok (s', count_rep n rep (rep v)) /\ Ghost n es s' rank rep /\ sz s' = sz s.
Proof.
  intros Hv. unfold size.
  destruct (par_spec _ _ _ _ _ G v Hv) as (s1 & E1 & G1 & Z1). rewrite E1.
  destruct (g_rep_root _ _ _ _ _ G1 v Hv) as [R1 R2].
  destruct (g_size _ _ _ _ _ G1 _ R1 R2) as [_ S2].
  rewrite get_ok by (rewrite (g_lensz _ _ _ _ _ G1); lia). cbn [bind].
  rewrite S2. exists s1. auto.
Qed.

Lemma size_panic v : n <= v -> size s v = Panic.
Proof. intros H. unfold size. now rewrite (par_panic _ _ _ _ _ G v H). Qed.
End Ops.

Lemma count_seq_out r : forall k a, r < a \/ a + k <= r ->
  length (filter (fun x => x =? r) (seq a k)) = 0.
Proof.
  induction k as [|k IH]; intros a H; cbn [seq filter length]; [reflexivity|].
  destruct (Nat.eqb_spec a r) as [->|Hne]; [lia|]. apply IH. lia.
Qed.

Lemma count_seq_in r : forall k a, a <= r < a + k ->
  length (filter (fun x => x =? r) (seq a k)) = 1.
Proof.
  induction k as [|k IH]; intros a H; cbn [seq filter length]; [lia|].
  destruct (Nat.eqb_spec a r) as [->|Hne]; cbn [length].
  - rewrite count_seq_out by lia. reflexivity.
  - apply IH. lia.
Qed.

Lemma nth_repeat_lt (a d : nat) n i : i < n -> nth i (repeat a n) d = a.
Proof. revert i; induction n as [|n IH]; intros [|i] H; cbn; try lia; auto. apply IH; lia. Qed.

Lemma new_ghost n : Ghost n [] (new n) (fun _ => 0) (fun x => x).
Proof.
  assert (P : forall v, v < n -> nth v (seq 0 n) 0 = v) by (intros v Hv; now rewrite seq_nth).
  constructor; cbn [new p sz].
  - apply seq_length. - apply repeat_length.
  - intros v Hv. now rewrite P.
  - intros v Hv. rewrite P by auto. congruence.
  - intros v Hv. now rewrite P.
  - intros v Hv. now rewrite P.
  - auto.
  - auto.
  - intros r Hr _. rewrite nth_repeat_lt by auto. split; [cbn; lia|].
    unfold count_rep. rewrite count_seq_in by lia. reflexivity.
  - intros x y [].
  - intros x _. apply conn_refl.
Qed.

Lemma step_inv n es s o s' r :
  Inv n es s -> step s o = Ok (s', r) -> Inv (ghost_n n o) (ghost_es es o) s'.
Proof.
  intros (rank & rep & G) H. destruct o as [u v|v|u v|v|m]; cbn [step ghost_n ghost_es] in *.
  - destruct (Nat.lt_ge_cases u n) as [Hu|Hu]; [destruct (Nat.lt_ge_cases v n) as [Hv|Hv]|].
    + destruct (un_spec _ _ _ _ _ G u v Hu Hv) as (s1 & rank' & rep' & E & G').
      rewrite E in H. inversion H; subst. now exists rank', rep'.
    + rewrite (un_panic _ _ _ _ _ G u v) in H by auto. discriminate.
    + rewrite (un_panic _ _ _ _ _ G u v) in H by auto. discriminate.
  - destruct (Nat.lt_ge_cases v n) as [Hv|Hv].
    + destruct (par_spec _ _ _ _ _ G v Hv) as (s1 & E & G' & _).
      rewrite E in H. inversion H; subst. now exists rank, rep.
    + rewrite (par_panic _ _ _ _ _ G v) in H by auto. discriminate.
  - destruct (Nat.lt_ge_cases u n) as [Hu|Hu]; [destruct (Nat.lt_ge_cases v n) as [Hv|Hv]|].
    + destruct (check_spec _ _ _ _ _ G u v Hu Hv) as (s1 & E & G' & _).
      rewrite E in H. inversion H; subst. now exists rank, rep.
    + rewrite (check_panic _ _ _ _ _ G u v) in H by auto. discriminate.
    + rewrite (check_panic _ _ _ _ _ G u v) in H by auto. discriminate.
  - destruct (Nat.lt_ge_cases v n) as [Hv|Hv].
    + destruct (size_spec _ _ _ _ _ G v Hv) as (s1 & E & G' & _).
      rewrite E in H. inversion H; subst. now exists rank, rep.
    + rewrite (size_panic _ _ _ _ _ G v) in H by auto. discriminate.
  - unfold reset_call in H. destruct (alloc_overflow m); [discriminate|].
    rewrite reset_is_new in H. inversion H; subst. do 2 eexists. apply new_ghost.
Qed.

Lemma reach_inv n es s : reach n es s -> Inv n es s.
Proof.
  induction 1 as [n|n es s o s' r _ IH H].
  - do 2 eexists. apply new_ghost.
  - eapply step_inv; eauto.
Qed.
