(** C05 — the property statements, derived from the invariant. *)
From Coq Require Import List Arith Bool Lia.
From RlibV Require Import C05.Model C05.Spec C05.Proofs C05.ProofsInv.
Import ListNotations.

Lemma inv_preserved :
  (forall n, Inv n [] (new n)) /\
  (forall n es s o s' r, Inv n es s -> step s o = Ok (s', r) -> Inv (ghost_n n o) (ghost_es es o) s').
Proof.
  split.
  - intros n. do 2 eexists. apply new_ghost.
  - intros. eapply step_inv; eauto.
Qed.

(** outcome of every call from a state satisfying the invariant *)
Lemma step_outcome n es s rank rep o :
  Ghost n es s rank rep ->
  if in_range n o then exists s' r, step s o = Ok (s', r) else step s o = Panic.
Proof.
  intros G. destruct o as [u v|v|u v|v|m]; cbn [in_range step].
  - destruct (Nat.ltb_spec u n) as [Hu|Hu]; [destruct (Nat.ltb_spec v n) as [Hv|Hv]|]; cbn [andb].
    + destruct (un_spec _ _ _ _ _ G u v Hu Hv) as (s1 & rank' & rep' & E & G'). rewrite E. eauto.
    + rewrite (un_panic _ _ _ _ _ G u v) by auto. reflexivity.
    + rewrite (un_panic _ _ _ _ _ G u v) by auto. reflexivity.
  - destruct (Nat.ltb_spec v n) as [Hv|Hv].
    + destruct (par_spec _ _ _ _ _ G v Hv) as (s1 & E & G' & _). rewrite E. eauto.
    + rewrite (par_panic _ _ _ _ _ G v) by auto. reflexivity.
  - destruct (Nat.ltb_spec u n) as [Hu|Hu]; [destruct (Nat.ltb_spec v n) as [Hv|Hv]|]; cbn [andb].
    + destruct (check_spec _ _ _ _ _ G u v Hu Hv) as (s1 & E & G' & _). rewrite E. eauto.
    + rewrite (check_panic _ _ _ _ _ G u v) by auto. reflexivity.
    + rewrite (check_panic _ _ _ _ _ G u v) by auto. reflexivity.
  - destruct (Nat.ltb_spec v n) as [Hv|Hv].
    + destruct (size_spec _ _ _ _ _ G v Hv) as (s1 & E & G' & _). rewrite E. eauto.
    + rewrite (size_panic _ _ _ _ _ G v) by auto. reflexivity.
  - unfold reset_call. destruct (alloc_overflow m); cbn [negb]; [reflexivity|]. rewrite reset_is_new. eauto.
Qed.

Lemma no_fuel_exhaustion n es s o : reach n es s -> step s o <> Fuel.
Proof.
  intros R. destruct (reach_inv _ _ _ R) as (rank & rep & G).
  pose proof (step_outcome _ _ _ _ _ o G) as H.
  destruct (in_range n o).
  - destruct H as (s' & r & E). rewrite E. discriminate.
  - rewrite H. discriminate.
Qed.

Lemma panic_iff_out_of_range n es s o :
  reach n es s -> (step s o = Panic <-> in_range n o = false).
Proof.
  intros R. destruct (reach_inv _ _ _ R) as (rank & rep & G).
  pose proof (step_outcome _ _ _ _ _ o G) as H.
  destruct (in_range n o).
  - destruct H as (s' & r & E). rewrite E. split; discriminate.
  - rewrite H. split; auto.
Qed.

Lemma partition n es s u v : reach n es s -> u < n -> v < n ->
  exists s' b, step s (Check u v) = Ok (s', RB b) /\ (b = true <-> conn es u v).
Proof.
  intros R Hu Hv. destruct (reach_inv _ _ _ R) as (rank & rep & G).
  destruct (check_spec _ _ _ _ _ G u v Hu Hv) as (s1 & E & G' & _).
  exists s1, (rep u =? rep v). cbn [step]. rewrite E. split; [reflexivity|].
  rewrite Nat.eqb_eq. now apply (ghost_conn_iff _ _ _ _ _ G).
Qed.

Lemma un_true_iff_joined n es s u v : reach n es s -> u < n -> v < n ->
  exists s' b, step s (Un u v) = Ok (s', RB b) /\ (b = true <-> ~ conn es u v).
Proof.
  intros R Hu Hv. destruct (reach_inv _ _ _ R) as (rank & rep & G).
  destruct (un_spec _ _ _ _ _ G u v Hu Hv) as (s1 & rank' & rep' & E & G').
  exists s1, (negb (rep u =? rep v)). cbn [step]. rewrite E. split; [reflexivity|].
  rewrite negb_true_iff, Nat.eqb_neq. now rewrite (ghost_conn_iff _ _ _ _ _ G u v Hu Hv).
Qed.

Lemma ghost_class_card n es s rank rep v :
  Ghost n es s rank rep -> v < n -> class_card n es v (count_rep n rep (rep v)).
Proof.
  intros G Hv. exists (filter (fun x => rep x =? rep v) (seq 0 n)). split; [|split].
  - apply NoDup_filter, seq_NoDup.
  - intros x. rewrite filter_In, in_seq, Nat.eqb_eq. split.
    + intros [H1 H2]. split; [lia|]. apply (ghost_conn_iff _ _ _ _ _ G); auto; lia.
    + intros [H1 H2]. split; [lia|]. symmetry. apply (ghost_conn_iff _ _ _ _ _ G); auto.
  - reflexivity.
Qed.

Lemma size_is_cardinality n es s v : reach n es s -> v < n ->
  exists s' k, step s (Size v) = Ok (s', RN k) /\ class_card n es v k.
Proof.
  intros R Hv. destruct (reach_inv _ _ _ R) as (rank & rep & G).
  destruct (size_spec _ _ _ _ _ G v Hv) as (s1 & E & G' & _).
  exists s1, (count_rep n rep (rep v)). cbn [step]. rewrite E. split; [reflexivity|].
  now apply (ghost_class_card _ _ _ _ _ _ G).
Qed.

Lemma class_card_unique n es v k k' : class_card n es v k -> class_card n es v k' -> k = k'.
Proof.
  intros (l & N & M & L) (l' & N' & M' & L'). subst.
  apply Nat.le_antisymm; apply NoDup_incl_length; auto; intros x Hx.
  - apply M'. now apply M. - apply M. now apply M'.
Qed.

Lemma par_val_ghost n es s rank rep v : Ghost n es s rank rep -> v < n -> par_val s v = Some (rep v).
Proof.
  intros G Hv. unfold par_val. destruct (par_spec _ _ _ _ _ G v Hv) as (s1 & E & _). now rewrite E.
Qed.

Lemma lookup_ghost n es s rank rep o s' x :
  Ghost n es s rank rep -> is_lookup o = true -> step s o = Ok (s', x) -> Ghost n es s' rank rep.
Proof.
  intros G L H. destruct o as [u v|v|u v|v|m]; try discriminate; cbn [step] in H.
  - destruct (Nat.lt_ge_cases v n) as [Hv|Hv].
    + destruct (par_spec _ _ _ _ _ G v Hv) as (s1 & E & G' & _).
      rewrite E in H. now inversion H; subst.
    + rewrite (par_panic _ _ _ _ _ G v) in H by auto. discriminate.
  - destruct (Nat.lt_ge_cases u n) as [Hu|Hu]; [destruct (Nat.lt_ge_cases v n) as [Hv|Hv]|].
    + destruct (check_spec _ _ _ _ _ G u v Hu Hv) as (s1 & E & G' & _).
      rewrite E in H. now inversion H; subst.
    + rewrite (check_panic _ _ _ _ _ G u v) in H by auto. discriminate.
    + rewrite (check_panic _ _ _ _ _ G u v) in H by auto. discriminate.
  - destruct (Nat.lt_ge_cases v n) as [Hv|Hv].
    + destruct (size_spec _ _ _ _ _ G v Hv) as (s1 & E & G' & _).
      rewrite E in H. now inversion H; subst.
    + rewrite (size_panic _ _ _ _ _ G v) in H by auto. discriminate.
Qed.

Lemma par_representative n es s : reach n es s ->
  (forall v, v < n -> exists r, par_val s v = Some r /\ r < n /\ conn es v r) /\
  (forall u v, u < n -> v < n -> (conn es u v <-> par_val s u = par_val s v)) /\
  (forall o s' x, is_lookup o = true -> step s o = Ok (s', x) ->
     forall v, v < n -> par_val s' v = par_val s v).
Proof.
  intros R. destruct (reach_inv _ _ _ R) as (rank & rep & G). split; [|split].
  - intros v Hv. exists (rep v). split; [now apply (par_val_ghost _ _ _ _ _ _ G)|].
    split; [now apply (g_rep_root _ _ _ _ _ G)|now apply (g_conn _ _ _ _ _ G)].
  - intros u v Hu Hv. rewrite (par_val_ghost _ _ _ _ _ _ G) by auto.
    rewrite (par_val_ghost _ _ _ _ _ _ G) by auto.
    rewrite <- (ghost_conn_iff _ _ _ _ _ G u v Hu Hv). split; congruence.
  - intros o s' x L H v Hv. pose proof (lookup_ghost _ _ _ _ _ _ _ _ G L H) as G'.
    rewrite (par_val_ghost _ _ _ _ _ _ G') by auto. now rewrite (par_val_ghost _ _ _ _ _ _ G).
Qed.

(* ------------------------------------------------------------------ depth *)
Lemma nth_error_nth_eq l v w : nth_error l v = Some w -> nth v l 0 = w.
Proof. intros H. now apply nth_error_nth. Qed.

Lemma chain_bound n es s rank rep v r k :
  Ghost n es s rank rep -> chain (p s) v r k -> v < n -> r = rep v /\ rank v + k <= rank r.
Proof.
  intros G C. induction C as [r Hr|v w r k Hv Hne C IH]; intros Hn.
  - split; [|lia]. symmetry. apply (g_root_rep _ _ _ _ _ G); auto. now apply nth_error_nth_eq.
  - apply nth_error_nth_eq in Hv. subst w.
    pose proof (g_range _ _ _ _ _ G v Hn) as Hr. destruct (IH Hr) as [E K].
    rewrite (g_rep_par _ _ _ _ _ G v Hn) in E.
    pose proof (g_rank _ _ _ _ _ G v Hn Hne). split; [exact E|lia].
Qed.

Lemma chain_exists n es s rank rep : Ghost n es s rank rep ->
  forall m v, v < n -> rank (rep v) - rank v < m -> exists k, chain (p s) v (rep v) k.
Proof.
  intros G. induction m as [|m IH]; intros v Hv Hm; [lia|].
  pose proof (g_lenp _ _ _ _ _ G) as Lp.
  assert (Hnth : nth_error (p s) v = Some (nth v (p s) 0)) by (apply nth_error_nth'; lia).
  destruct (Nat.eq_dec (nth v (p s) 0) v) as [E|E].
  - exists 0. rewrite (g_root_rep _ _ _ _ _ G v Hv E). apply chain_root. congruence.
  - pose proof (g_range _ _ _ _ _ G v Hv) as Hr.
    pose proof (g_rank _ _ _ _ _ G v Hv E) as Hk.
    pose proof (g_rank_rep _ _ _ _ _ G _ Hr) as Hk2.
    pose proof (g_rep_par _ _ _ _ _ G v Hv) as Hp.
    destruct (IH _ Hr) as [k C]; [rewrite Hp in *; lia|].
    exists (S k). rewrite Hp in C. eapply chain_up; eauto.
Qed.

Lemma depth_log n es s v : reach n es s -> v < n ->
  exists r k c,
    chain (p s) v r k /\ class_card n es v c /\ nth r (sz s) 0 = c /\
    (forall r' k', chain (p s) v r' k' -> r' = r /\ 2 ^ k' <= c /\ k' <= Nat.log2 c).
Proof.
  intros R Hv. destruct (reach_inv _ _ _ R) as (rank & rep & G).
  destruct (chain_exists _ _ _ _ _ G (S (rank (rep v))) v Hv) as [k C]; [lia|].
  destruct (g_rep_root _ _ _ _ _ G v Hv) as [R1 R2].
  destruct (g_size _ _ _ _ _ G _ R1 R2) as [S1 S2].
  exists (rep v), k, (count_rep n rep (rep v)). split; [exact C|]. split; [|split].
  - now apply (ghost_class_card _ _ _ _ _ _ G).
  - exact S2.
  - intros r' k' C'. destruct (chain_bound _ _ _ _ _ _ _ _ G C' Hv) as [E K]. subst r'.
    split; [reflexivity|].
    assert (P : 2 ^ k' <= count_rep n rep (rep v)).
    { rewrite <- S2. etransitivity; [|exact S1]. apply Nat.pow_le_mono_r; lia. }
    split; [exact P|]. apply Nat.log2_le_pow2; [|exact P].
    pose proof (Nat.pow_nonzero 2 k'). lia.
Qed.

(* ------------------------------------------------------------------ clones *)
Lemma clone_id s : clone s = s.
Proof. now destruct s. Qed.

Lemma Forall_put {A} (P : A -> Prop) l i x : Forall P l -> P x -> Forall P (put l i x).
Proof.
  intros H Hx. revert i; induction H as [|h t Hh Ht IH]; intros [|i]; cbn; auto.
Qed.

Lemma mreach_copies cs : mreach cs -> Forall (fun s => exists n es, reach n es s) cs.
Proof.
  induction 1 as [n|cs m cs' c r _ IH H].
  - constructor; [|constructor]. exists n, []. constructor.
  - destruct m as [i o|i]; cbn [mstep] in H.
    + destruct (nth_error cs i) as [s|] eqn:E; [|discriminate].
      destruct (step s o) as [[s' x]| |] eqn:E2; try discriminate.
      inversion H; subst. apply Forall_put; auto.
      apply nth_error_In in E. rewrite Forall_forall in IH. destruct (IH _ E) as (n & es & R).
      do 2 eexists. eapply reach_step; eauto.
    + destruct (nth_error cs i) as [s|] eqn:E; [|discriminate].
      inversion H; subst. apply Forall_app. split; auto. constructor; [|constructor].
      rewrite clone_id. apply nth_error_In in E. rewrite Forall_forall in IH. now apply IH.
Qed.

(* ------------------------------------------------------------------ recursion depth of par *)
Lemma par_rec_mono pa : forall f v x, par_rec f pa v = Ok x -> par_rec (S f) pa v = Ok x.
Proof.
  induction f as [|f IH]; intros v x H; [discriminate|].
  remember (S f) as g. cbn [par_rec]. subst g. cbn [par_rec] in H.
  destruct (get pa v) as [pv| |]; cbn [bind] in *; try discriminate.
  destruct (negb (pv =? v)); [|exact H].
  destruct (par_rec f pa pv) as [y| |] eqn:E; try discriminate.
  now rewrite (IH _ _ E).
Qed.

Lemma par_rec_mono_le pa f g v x : f <= g -> par_rec f pa v = Ok x -> par_rec g pa v = Ok x.
Proof. induction 1; auto. intros. now apply par_rec_mono, IHle. Qed.

Lemma stack_depth n es s v c : reach n es s -> v < n -> class_card n es v c ->
  par_rec (S (Nat.log2 c)) (p s) v = par_rec (par_fuel (p s)) (p s) v /\
  exists x, par_rec (S (Nat.log2 c)) (p s) v = Ok x.
Proof.
  intros R Hv Hc. destruct (reach_inv _ _ _ R) as (rank & rep & G).
  pose proof (ghost_class_card _ _ _ _ _ _ G Hv) as Hc'.
  rewrite (class_card_unique _ _ _ _ _ Hc Hc') in *. clear Hc.
  destruct (g_rep_root _ _ _ _ _ G v Hv) as [R1 R2].
  destruct (g_size _ _ _ _ _ G _ R1 R2) as [S1 S2]. rewrite S2 in S1.
  assert (K : rank (rep v) <= Nat.log2 (count_rep n rep (rep v))).
  { apply Nat.log2_le_pow2; [|exact S1]. pose proof (Nat.pow_nonzero 2 (rank (rep v))). lia. }
  pose proof (par_rec_ok _ _ _ _ _ G (S (Nat.log2 (count_rep n rep (rep v)))) v Hv) as H.
  destruct (par_rec (S (Nat.log2 (count_rep n rep (rep v)))) (p s) v) as [x| |] eqn:E.
  - split; [|eauto]. symmetry. eapply par_rec_mono_le; [|exact E].
    unfold par_fuel. rewrite (g_lenp _ _ _ _ _ G).
    pose proof (count_rep_le n rep (rep v)).
    assert (Nat.log2 (count_rep n rep (rep v)) <= count_rep n rep (rep v)) by apply Nat.log2_le_lin, Nat.le_0_l.
    lia.
  - exfalso. apply H. lia.
  - exfalso. apply H. lia.
Qed.

(* ------------------------------------------------------------------ whole histories *)
Lemma run_reach : forall ops n es s s' rs, reach n es s -> run s ops = Ok (s', rs) ->
  reach (fst (ghost_run n es ops)) (snd (ghost_run n es ops)) s'.
Proof.
  induction ops as [|o t IH]; intros n es s s' rs R H; cbn [run ghost_run] in *.
  - inversion H; subst. exact R.
  - destruct (step s o) as [[s1 r]| |] eqn:E; try discriminate.
    destruct (run s1 t) as [[s2 rs2]| |] eqn:E2; try discriminate.
    inversion H; subst. eapply IH; [|exact E2]. eapply reach_step; eauto.
Qed.

Lemma history_reach n0 ops s rs : run (new n0) ops = Ok (s, rs) ->
  reach (fst (ghost_run n0 [] ops)) (snd (ghost_run n0 [] ops)) s.
Proof. apply run_reach. constructor. Qed.

Lemma run_no_fuel : forall ops n es s, reach n es s -> run s ops <> Fuel.
Proof.
  induction ops as [|o t IH]; intros n es s R; cbn [run]; [discriminate|].
  pose proof (no_fuel_exhaustion _ _ _ o R) as NF.
  destruct (step s o) as [[s1 r]| |] eqn:E; try discriminate; [|congruence].
  assert (R1 : reach (ghost_n n o) (ghost_es es o) s1) by (eapply reach_step; eauto).
  specialize (IH _ _ _ R1). destruct (run s1 t) as [[s2 rs2]| |]; try discriminate. congruence.
Qed.

Lemma history_no_fuel n0 ops : run (new n0) ops <> Fuel.
Proof. apply run_no_fuel with n0 []. constructor. Qed.

(** the value a panicking call leaves behind is what a lookup produces, or the value itself *)
Lemma panic_state_reach n es s o : reach n es s -> reach n es (panic_state s o).
Proof.
  intros R.
  assert (P : forall u, reach n es (match par s u with Ok (s1, _) => s1 | _ => s end)).
  { intros u. destruct (par s u) as [[s1 r]| |] eqn:E; auto.
    apply (reach_step n es s (Par u) s1 (RN r)); auto. cbn [step]. now rewrite E. }
  destruct o; cbn [panic_state]; auto.
Qed.

