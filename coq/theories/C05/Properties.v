(** C05 — property theorems (statements only; proofs by [exact]).

    Vocabulary (C05.Spec): [reach n es s] — the DSU value [s] is produced by some history of calls
    (new, un, par, check, size, reset), [n] is its current element count and [es] the union requests
    made since the last reset; [conn es] — the equivalence closure of [es]; [class_card n es v k] —
    [k] elements below [n] are connected to [v]; [chain pa v r k] — following the parent array [pa]
    from [v] takes [k] steps to the root [r]; [par_val s v] — the value [par] returns.  Clones are
    plain copies: every live copy of a multi-copy history is itself [reach]able
    ([c05_clone_copies_reachable]), so all statements apply to each copy. *)
From Coq Require Import List Arith NArith Bool.
From RlibV Require Import C05.Model C05.Spec C05.Proofs C05.ProofsInv C05.ProofsMain C05.Corr C05.ProofsCorr.
Import ListNotations.

(** reset, written as the code does it (resize, then two loops of checked writes), yields exactly the state
    built by [new]: nothing of the previous history survives, whether the reset grows or shrinks *)
Theorem c05_reset_is_new : forall (s : dsu) (n : nat), reset s n = Ok (new n).
Proof. exact reset_is_new. Qed.

(** the call [reset(n)]: a request of more than isize::MAX bytes (n * 8, i.e. n >= 2^60) is refused by the first
    [resize] ('capacity overflow'): the call panics and has written nothing; every other request behaves as above *)
Theorem c05_reset_refused : forall (s : dsu) (m : N), (9223372036854775807 < m * 8)%N ->
  step s (Reset m) = Panic /\ panic_state s (Reset m) = s.
Proof. exact reset_alloc_overflow. Qed.

Theorem c05_reset_granted : forall (s : dsu) (m : N), (m * 8 <= 9223372036854775807)%N ->
  step s (Reset m) = Ok (new (N.to_nat m), RU).
Proof. exact reset_fits. Qed.

(** the invariant (ghost rank and representative function, see [Ghost]) holds initially and every call
    that returns preserves it *)
Theorem c05_inv_preserved :
  (forall n, Inv n [] (new n)) /\
  (forall n es s o s' r, Inv n es s -> step s o = Ok (s', r) -> Inv (ghost_n n o) (ghost_es es o) s').
Proof. exact inv_preserved. Qed.

Theorem c05_reach_inv : forall n es s, reach n es s -> Inv n es s.
Proof. exact reach_inv. Qed.

(** histories as lists of calls: what a history that does not panic produces is [reach]able, with the
    element count and the union requests since the last reset computed by [ghost_run]; so every statement
    below holds after every finite history of un / par / check / size / reset *)
Theorem c05_history_reach : forall n0 ops s rs, run (new n0) ops = Ok (s, rs) ->
  reach (fst (ghost_run n0 [] ops)) (snd (ghost_run n0 [] ops)) s.
Proof. exact history_reach. Qed.

(** no history runs out of fuel *)
Theorem c05_history_no_fuel : forall n0 ops, run (new n0) ops <> Fuel.
Proof. exact history_no_fuel. Qed.

(** the model's recursion fuel never runs out *)
Theorem c05_no_fuel_exhaustion : forall n es s o, reach n es s -> step s o <> Fuel.
Proof. exact no_fuel_exhaustion. Qed.

(** a call panics exactly when one of its indices is out of range or, for reset, when its buffer request is refused
    ([in_range]) *)
Theorem c05_panic_iff_out_of_range : forall n es s o,
  reach n es s -> (step s o = Panic <-> in_range n o = false).
Proof. exact panic_iff_out_of_range. Qed.

(** a caller that catches the unwind keeps a value of the same history: what a panicking call leaves behind
    ([panic_state]: the first find of un / check done, nothing else written) is reachable with the same element
    count and the same union requests, so every statement here holds for it and for what follows *)
Theorem c05_panic_state_reachable : forall n es s o, reach n es s -> reach n es (panic_state s o).
Proof. exact panic_state_reach. Qed.

(** check u v <=> (u, v) in the equivalence closure of the unions since the last reset *)
Theorem c05_partition : forall n es s u v, reach n es s -> u < n -> v < n ->
  exists s' b, step s (Check u v) = Ok (s', RB b) /\ (b = true <-> conn es u v).
Proof. exact partition. Qed.

(** un returns true <=> its arguments were in different classes *)
Theorem c05_un_true_iff_joined : forall n es s u v, reach n es s -> u < n -> v < n ->
  exists s' b, step s (Un u v) = Ok (s', RB b) /\ (b = true <-> ~ conn es u v).
Proof. exact un_true_iff_joined. Qed.

(** size v = number of elements connected to v *)
Theorem c05_size_is_cardinality : forall n es s v, reach n es s -> v < n ->
  exists s' k, step s (Size v) = Ok (s', RN k) /\ class_card n es v k.
Proof. exact size_is_cardinality. Qed.

Theorem c05_class_card_unique : forall n es v k k',
  class_card n es v k -> class_card n es v k' -> k = k'.
Proof. exact class_card_unique. Qed.

(** par v is a member of v's class, the same for all members and only for them, and no lookup changes it *)
Theorem c05_par_representative : forall n es s, reach n es s ->
  (forall v, v < n -> exists r, par_val s v = Some r /\ r < n /\ conn es v r) /\
  (forall u v, u < n -> v < n -> (conn es u v <-> par_val s u = par_val s v)) /\
  (forall o s' x, is_lookup o = true -> step s o = Ok (s', x) ->
     forall v, v < n -> par_val s' v = par_val s v).
Proof. exact par_representative. Qed.

(** in every reachable state every element has a parent chain to a root; the root's recorded size is the
    cardinality c of the class; every parent chain from v ends in that root and its length k' satisfies
    2^k' <= c, i.e. k' <= log2 c *)
Theorem c05_depth_log : forall n es s v, reach n es s -> v < n ->
  exists r k c,
    chain (p s) v r k /\ class_card n es v c /\ nth r (sz s) 0 = c /\
    (forall r' k', chain (p s) v r' k' -> r' = r /\ 2 ^ k' <= c /\ k' <= Nat.log2 c).
Proof. exact depth_log. Qed.

(** the recursion of par is no deeper than log2 (class size) + 1 frames: with that much fuel the model's
    find already returns, and returns what it returns with the full fuel *)
Theorem c05_stack_depth : forall n es s v c, reach n es s -> v < n -> class_card n es v c ->
  par_rec (S (Nat.log2 c)) (p s) v = par_rec (par_fuel (p s)) (p s) v /\
  exists x, par_rec (S (Nat.log2 c)) (p s) v = Ok x.
Proof. exact stack_depth. Qed.

(** clones: every live copy of a multi-copy history is a reachable single value *)
Theorem c05_clone_copies_reachable : forall cs,
  mreach cs -> Forall (fun s => exists n es, reach n es s) cs.
Proof. exact mreach_copies. Qed.

(** correspondence cases (C05.Corr): whenever the implementation's observations equal the model's
    ([model_check]), they satisfy the model-independent specification ([spec_check]: naive partition replay,
    representative constraints, forest shape, depth <= log2 class size) *)
Theorem c05_model_check_implies_spec_check : forall c : case, model_check c = true -> spec_check c = true.
Proof. exact model_check_spec_check. Qed.
