(** C05 — property theorems (statements only; proofs by [exact]). *)
From Coq Require Import List Arith Bool.
From RlibV Require Import C05.Model C05.Spec C05.Proofs.
Import ListNotations.

(** reset, written as the code does it (resize, then two loops of checked writes), yields exactly the state
    built by [new]: nothing of the previous history survives, whether the reset grows or shrinks *)
Theorem c05_reset_is_new : forall (s : dsu) (n : nat), reset s n = Ok (new n).
Proof. exact reset_is_new. Qed.
