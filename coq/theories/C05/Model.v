(** C05 — executable model of rlib/dsu/src/lib.rs (struct DSU: new, reset, par, un, check, size, clone).

    State: the two vectors [p] (parent) and [sz] (size, meaningful at roots), as lists of [nat].
    Every vector access [self.p[i]] is a checked access: [get]/[set] return [Panic] when the index is
    out of range (Rust panics).  [par] is the recursive find with path compression, written exactly as
    the code: read [p[v]]; if different from [v], recurse on it, write the answer into [p[v]]; finally
    read [p[v]] again and return it.  The recursion is not structural in Rust; the model recurses on a
    fuel equal to the number of elements plus one.  Running out of fuel gives the distinguished result [Fuel]
    (never a normal-looking value); the theorems show that it cannot happen from any reachable state.

    Definitions only; the proofs are in Proofs*.v. *)
From Coq Require Import List Arith NArith Bool.
Import ListNotations.

(** result of a call: a value, a Rust panic, or "the model ran out of fuel" *)
Inductive res (A : Type) : Type := Ok (a : A) | Panic | Fuel.
Arguments Ok {A} a. Arguments Panic {A}. Arguments Fuel {A}.

Definition bind {A B : Type} (x : res A) (f : A -> res B) : res B :=
  match x with Ok a => f a | Panic => Panic | Fuel => Fuel end.
Notation "x <- e ;; k" := (bind e (fun x => k)) (at level 61, e at next level, right associativity).

(** [v[i]] *)
Definition get (l : list nat) (i : nat) : res nat :=
  match nth_error l i with Some x => Ok x | None => Panic end.

Fixpoint upd (l : list nat) (i x : nat) : list nat :=
  match l, i with
  | [], _ => []
  | _ :: t, O => x :: t
  | h :: t, S j => h :: upd t j x
  end.

(** [v[i] = x] *)
Definition set (l : list nat) (i x : nat) : res (list nat) :=
  if i <? length l then Ok (upd l i x) else Panic.

Record dsu := mk { p : list nat; sz : list nat }.

(** DSU::new(n): p = (0..n).collect(), sz = vec![1; n] *)
Definition new (n : nat) : dsu := mk (seq 0 n) (repeat 1 n).

(** fn par(&mut self, v) { if self.p[v] != v { self.p[v] = self.par(self.p[v]); } self.p[v] } *)
Fixpoint par_rec (fuel : nat) (p : list nat) (v : nat) : res (list nat * nat) :=
  match fuel with
  | O => Fuel
  | S f =>
      pv <- get p v ;;
      if negb (pv =? v) then
        pv' <- get p v ;;
        match par_rec f p pv' with
        | Ok (p1, r) =>
            p2 <- set p1 v r ;;
            r' <- get p2 v ;;
            Ok (p2, r')
        | Panic => Panic
        | Fuel => Fuel
        end
      else
        r' <- get p v ;; Ok (p, r')
  end.

Definition par_fuel (p : list nat) : nat := S (length p).

Definition par (s : dsu) (v : nat) : res (dsu * nat) :=
  match par_rec (par_fuel (p s)) (p s) v with
  | Ok (p', r) => Ok (mk p' (sz s), r)
  | Panic => Panic
  | Fuel => Fuel
  end.

(** fn un(&mut self, mut u, mut v) -> bool *)
Definition un (s : dsu) (u v : nat) : res (dsu * bool) :=
  match par s u with
  | Ok (s1, u1) =>
    match par s1 v with
    | Ok (s2, v1) =>
        if u1 =? v1 then Ok (s2, false)
        else
          su <- get (sz s2) u1 ;;
          sv <- get (sz s2) v1 ;;
          let '(a, b) := if sv <? su then (v1, u1) else (u1, v1) in   (* swap if sz[u] > sz[v] *)
          sb <- get (sz s2) b ;;
          sa <- get (sz s2) a ;;
          sz' <- set (sz s2) b (sb + sa) ;;                              (* sz[v] += sz[u] *)
          p' <- set (p s2) a b ;;                                        (* p[u] = v *)
          Ok (mk p' sz', true)
    | Panic => Panic
    | Fuel => Fuel
    end
  | Panic => Panic
  | Fuel => Fuel
  end.

(** fn check(&mut self, u, v) -> bool { self.par(u) == self.par(v) } *)
Definition check (s : dsu) (u v : nat) : res (dsu * bool) :=
  match par s u with
  | Ok (s1, u1) =>
    match par s1 v with
    | Ok (s2, v1) => Ok (s2, u1 =? v1)
    | Panic => Panic
    | Fuel => Fuel
    end
  | Panic => Panic
  | Fuel => Fuel
  end.

(** fn size(&mut self, v) -> usize { let v = self.par(v); self.sz[v] } *)
Definition size (s : dsu) (v : nat) : res (dsu * nat) :=
  match par s v with
  | Ok (s1, r) => k <- get (sz s1) r ;; Ok (s1, k)
  | Panic => Panic
  | Fuel => Fuel
  end.

(** Vec::resize(n, d) *)
Definition resize (l : list nat) (n d : nat) : list nat :=
  firstn n l ++ repeat d (n - length l).

(** for i in 0..n { v[i] = f(i) } *)
Fixpoint fill (f : nat -> nat) (idx : list nat) (l : list nat) : res (list nat) :=
  match idx with
  | [] => Ok l
  | i :: rest => l' <- set l i (f i) ;; fill f rest l'
  end.

(** fn reset(&mut self, n): resize p with 0, p[i] = i for i in 0..n; resize sz with 0, sz[i] = 1
    (the writes of a reset whose first [resize] got its buffer) *)
Definition reset (s : dsu) (n : nat) : res dsu :=
  p' <- fill (fun i => i) (seq 0 n) (resize (p s) n 0) ;;
  sz' <- fill (fun _ => 1) (seq 0 n) (resize (sz s) n 0) ;;
  Ok (mk p' sz').

(** The first statement of [reset], [self.p.resize(n, 0)], asks for a buffer of [n] elements of 8 bytes.  A request
    of more than [isize::MAX] bytes (n >= 2^60, e.g. usize::MAX from an [n - 1] that wrapped) is refused with the
    panic 'capacity overflow' before any allocation and BEFORE ANYTHING IS WRITTEN: the call panics and both vectors
    are what they were.  The argument of [reset] is therefore a binary number (a usize), not an element count in
    unary. *)
Definition isize_max : N := 9223372036854775807%N.
Definition alloc_overflow (n : N) : bool := (isize_max <? n * 8)%N.
Definition reset_call (s : dsu) (n : N) : res dsu :=
  if alloc_overflow n then Panic else reset s (N.to_nat n).

(** #[derive(Clone)] *)
Definition clone (s : dsu) : dsu := mk (p s) (sz s).

(** One call on one DSU value and what it returned. *)
Inductive op := Un (u v : nat) | Par (v : nat) | Check (u v : nat) | Size (v : nat) | Reset (n : N).
Inductive ret := RB (b : bool) | RN (k : nat) | RU.

Definition step (s : dsu) (o : op) : res (dsu * ret) :=
  match o with
  | Un u v => match un s u v with Ok (s', b) => Ok (s', RB b) | Panic => Panic | Fuel => Fuel end
  | Par v => match par s v with Ok (s', r) => Ok (s', RN r) | Panic => Panic | Fuel => Fuel end
  | Check u v => match check s u v with Ok (s', b) => Ok (s', RB b) | Panic => Panic | Fuel => Fuel end
  | Size v => match size s v with Ok (s', k) => Ok (s', RN k) | Panic => Panic | Fuel => Fuel end
  | Reset n => match reset_call s n with Ok s' => Ok (s', RU) | Panic => Panic | Fuel => Fuel end
  end.

(** What a call that panics leaves behind (a caller that catches the unwind keeps using the value).  From every
    reachable state the only panics are the bounds check of the first access [self.p[v]] of a find whose argument
    is out of range, and the refused buffer request of a [reset] (c05_panic_iff_out_of_range); [un] and [check]
    have then already completed the find of their first argument when that one is in range (its path is
    compressed), every other panicking call - a [reset] with [alloc_overflow n] in particular - has written
    nothing. *)
Definition panic_state (s : dsu) (o : op) : dsu :=
  match o with
  | Un u _ | Check u _ => match par s u with Ok (s1, _) => s1 | _ => s end
  | Par _ | Size _ | Reset _ => s
  end.

(** Several live copies: a call on copy [c], or [Clone c] which appends a copy of copy [c]. *)
Inductive mop := On (c : nat) (o : op) | Clone (c : nat).

Fixpoint put {A : Type} (l : list A) (i : nat) (x : A) : list A :=
  match l, i with
  | [], _ => []
  | _ :: t, O => x :: t
  | h :: t, S j => h :: put t j x
  end.

(** returns the new copies, the index of the copy that was touched, and the returned value *)
Definition mstep (cs : list dsu) (m : mop) : res (list dsu * nat * ret) :=
  match m with
  | On c o =>
      match nth_error cs c with
      | None => Panic
      | Some s => match step s o with
                  | Ok (s', r) => Ok (put cs c s', c, r)
                  | Panic => Panic
                  | Fuel => Fuel
                  end
      end
  | Clone c =>
      match nth_error cs c with
      | None => Panic
      | Some s => Ok (cs ++ [clone s], length cs, RU)
      end
  end.
