(** C09 — the specification side of the theorems: what a value renders to,
    what "standard decimal" means, and the pure reader used for the round trip.
    Definitions only. *)
From Coq Require Import ZArith List Bool.
From RlibV Require Import C09.Model.
Import ListNotations.
Open Scope Z_scope.

(** ---------- decimal rendering, directly on Z ---------- *)
(** digits of v, most significant first, pushed in front of [acc] *)
Fixpoint udigits (n : nat) (v : Z) (acc : list byte) : list byte :=
  match n with
  | O => acc
  | S k => if v =? 0 then acc else udigits k (v / 10) ((v mod 10 + 48) :: acc)
  end.
(** a number below 2^(log2 v + 1) has at most log2 v + 1 decimal digits *)
Definition udec (v : Z) : list byte :=
  if v =? 0 then [48] else udigits (S (Z.to_nat (Z.log2 v))) v [].
Definition sdec (v : Z) : list byte :=
  if v <? 0 then 45 :: udec (- v) else udec v.

(** ---------- what "standard decimal formatting" means ---------- *)
Definition is_digit (b : byte) : Prop := 48 <= b <= 57.
(** value of a digit string, most significant digit first *)
Definition dval (ds : list byte) : Z := fold_left (fun a d => a * 10 + (d - 48)) ds 0.
(** [bs] is the canonical decimal numeral of [v]: an optional '-' (exactly
    when v < 0) followed by a non-empty string of digits whose value is |v|
    and that does not start with '0' unless it is "0" itself. *)
Definition canonical_decimal (bs : list byte) (v : Z) : Prop :=
  exists ds,
    bs = (if v <? 0 then [45] else []) ++ ds
    /\ ds <> [] /\ Forall is_digit ds /\ dval ds = Z.abs v
    /\ (hd 0 ds = 48 -> ds = [48]).

(** ---------- rendering of values and operations ---------- *)
Section Join.
Context {A : Type} (f : A -> list byte).
(** pieces separated by single spaces *)
Fixpoint join (l : list A) : list byte :=
  match l with
  | [] => []
  | x :: r => match r with [] => f x | _ :: _ => f x ++ 32 :: join r end
  end.
End Join.

Fixpoint render (v : value) : list byte :=
  match v with
  | VInt _ z => sdec z
  | VStr b => b
  | VVec l => join render l
  | VTup l => join render l
  end.

Definition render_op (o : op) : list byte :=
  match o with
  | OWrite v => render v
  | OChar c => [c mod 256]
  | OFlush => []
  | OOut vs => join render vs
  | OOutln vs => join render vs ++ [10]
  end.

Definition rendering (ops : list op) : list byte := concat (map render_op ops).

(** number of bytes due at each explicit flush, in call order *)
Fixpoint flush_points (ops : list op) (n : Z) : list Z :=
  match ops with
  | [] => []
  | o :: r => let n1 := n + zlen (render_op o) in
              match o with OFlush => n1 :: flush_points r n1 | _ => flush_points r n1 end
  end.

(** ---------- well-formed scripts: the Rust programs that exist ---------- *)
Fixpoint wf_value (v : value) : Prop :=
  match v with
  | VInt t z => in_range t z = true
  | VStr _ => True
  | VVec l => (fix all (l : list value) : Prop := match l with [] => True | x :: r => wf_value x /\ all r end) l
  | VTup l => (fix all (l : list value) : Prop := match l with [] => True | x :: r => wf_value x /\ all r end) l
              /\ (2 <= length l <= 8)%nat
  end.
Fixpoint wf_values (l : list value) : Prop :=
  match l with [] => True | x :: r => wf_value x /\ wf_values r end.
Definition wf_op (o : op) : Prop :=
  match o with
  | OWrite v => wf_value v
  | OChar _ => True
  | OFlush => True
  | OOut vs => wf_values vs /\ vs <> []
  | OOutln vs => wf_values vs
  end.

(** ---------- a pure reader: whitespace separated decimal tokens ----------
    (u8::is_ascii_whitespace: space, \t, \n, form feed, \r) *)
Definition is_ws (b : byte) : bool :=
  (b =? 32) || (b =? 9) || (b =? 10) || (b =? 12) || (b =? 13).

(** [cur] = the current token, reversed *)
Fixpoint tokens (l : list byte) (cur : list byte) : list (list byte) :=
  match l with
  | [] => match cur with [] => [] | _ :: _ => [rev cur] end
  | b :: r => if is_ws b
              then match cur with [] => tokens r [] | _ :: _ => rev cur :: tokens r [] end
              else tokens r (b :: cur)
  end.

Definition digit_ok (b : byte) : bool := (48 <=? b) && (b <=? 57).
(** Reader: result = result * 10 + digit, or result * 10 - digit after a '-' *)
Definition parse_int (tok : list byte) : option Z :=
  match tok with
  | [] => None
  | b :: ds =>
      if b =? 45 then
        if forallb digit_ok ds && negb (zlen ds =? 0)
        then Some (fold_left (fun a d => a * 10 - (d - 48)) ds 0) else None
      else
        if forallb digit_ok tok
        then Some (fold_left (fun a d => a * 10 + (d - 48)) tok 0) else None
  end.

Fixpoint all_some {A} (l : list (option A)) : option (list A) :=
  match l with
  | [] => Some []
  | None :: _ => None
  | Some x :: r => match all_some r with Some xs => Some (x :: xs) | None => None end
  end.
Definition parse_ints (text : list byte) : option (list Z) :=
  all_some (map parse_int (tokens text [])).

(** a list of typed integers as values *)
Definition int_values (vs : list (ity * Z)) : list value := map (fun p => VInt (fst p) (snd p)) vs.
