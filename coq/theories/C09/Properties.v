(** C09 — property theorems (statements only; proofs by [exact]).

    Writer model: Model.v ([BUF] = Writer::BUF_SIZE, [dbg] = cfg!(debug_assertions));
    renderings, well-formed scripts, canonical decimal, the pure reader: Spec.v.
    The capacity hypothesis [39 <= BUF] is what integers need (a u128 has up to
    39 digits and is copied as one piece; a longer piece than the buffer would
    panic, [c09_oversized_piece_panics]); strings and single pieces are covered
    for every capacity >= 1 ([c09_string_any_capacity], [c09_piece_any_capacity]).
    The real crate has BUF_SIZE = 65536. *)
From Coq Require Import ZArith List Bool.
(* Corr before Spec: [join]/[flush_points] without qualification are Spec.v's *)
From RlibV Require Import C09.Model C09.Corr C09.Spec C09.Proofs C09.ProofsCorr.
Import ListNotations.
Open Scope Z_scope.

(** after any script: nothing lost, duplicated or reordered — what the sink has received
    followed by what is still buffered is the concatenation of all renderings, in call
    order; the buffer never overflows; no operation panics; both build flavours *)
Theorem c09_invariant : forall (BUF : Z) (dbg : bool) (ops : list op),
  39 <= BUF -> Forall wf_op ops ->
  exists s tr, exec BUF dbg ops init [] = Some (s, tr)
               /\ sink s ++ pending s = rendering ops /\ zlen (pending s) <= BUF.
Proof. exact invariant_final. Qed.

(** after a flush, and after the drop, the sink holds exactly that concatenation and nothing
    is pending; [run] (new .. drop) also reports the sink sizes seen at the explicit flushes:
    at each of them everything written before had arrived *)
Theorem c09_flush_delivers : forall (BUF : Z) (dbg : bool) (ops : list op),
  39 <= BUF -> Forall wf_op ops ->
  exists s tr, exec BUF dbg ops init [] = Some (s, tr)
     /\ sink (flush s) = rendering ops /\ pending (flush s) = []
     /\ sink (drop s) = rendering ops
     /\ run BUF dbg ops = Some (rendering ops, flush_points ops 0).
Proof. exact flush_delivers_final. Qed.

(** one piece that fits the buffer, any capacity, any fill level *)
Theorem c09_piece_any_capacity : forall (BUF : Z) (b : list byte) (s : state),
  1 <= BUF -> zlen b <= BUF -> zlen (pending s) <= BUF ->
  exists s', write_bytes BUF b s = Some s'
             /\ sink s' ++ pending s' = (sink s ++ pending s) ++ b /\ zlen (pending s') <= BUF.
Proof. exact piece_final. Qed.

(** a piece longer than the buffer panics in copy_from_slice (unreachable through the public
    API: strings are chunked, integers have at most 39 digits) *)
Theorem c09_oversized_piece_panics : forall (BUF : Z) (b : list byte) (s : state),
  BUF < zlen b -> write_bytes BUF b s = None.
Proof. exact write_bytes_too_long. Qed.

(** strings of any length through a buffer of any capacity >= 1: chunking loses nothing *)
Theorem c09_string_any_capacity : forall (BUF : Z) (dbg : bool) (b : list byte) (s : state),
  1 <= BUF -> zlen (pending s) <= BUF ->
  exists s', write BUF dbg (VStr b) s = Some s'
             /\ sink s' ++ pending s' = (sink s ++ pending s) ++ b /\ zlen (pending s') <= BUF.
Proof. exact string_final. Qed.

(** unsigned integers: the rendering is the canonical decimal numeral, it fits the
    BASE_10_LEN stack buffer, and the digit loop started at index BASE_10_LEN produces
    it without the index ever going below zero *)
Theorem c09_render_unsigned : forall (t : ity) (v : Z),
  is_signed t = false -> in_range t v = true ->
  canonical_decimal (sdec v) v
  /\ exists L, BASE_10_LEN t = Some L /\ zlen (sdec v) <= L
     /\ (v <> 0 -> digit_loop (Z.to_nat L) v [] = Some (sdec v)).
Proof. exact render_unsigned. Qed.

(** signed integers, MIN included: unsigned_abs is exact (no wrap), '-' exactly for
    negatives, at most BASE_10_LEN digits after it *)
Theorem c09_render_signed : forall (t : ity) (v : Z),
  is_signed t = true -> in_range t v = true ->
  canonical_decimal (sdec v) v
  /\ unsigned_abs (bits t) v = Z.abs v
  /\ exists L, BASE_10_LEN t = Some L /\ zlen (sdec v) <= L + 1
     /\ (v <> 0 -> digit_loop (Z.to_nat L) (unsigned_abs (bits t) v) [] = Some (sdec (Z.abs v))).
Proof. exact render_signed. Qed.

(** BASE_10_LEN: the base_10_len! loop on the unsigned MAX terminates with the number of
    decimal digits of MAX, for each of the six widths (both signednesses share it) *)
Theorem c09_base10len : forall t : ity,
  exists L, base_10_len (bits t) = Some L /\ BASE_10_LEN t = Some L
            /\ 10 ^ (L - 1) <= 2 ^ bits t - 1 < 10 ^ L.
Proof. exact base10len. Qed.

(** write a vector of integers (any mix of the 12 types, any values in range), let the
    writer go; a reader that splits at ASCII whitespace and accumulates digits the way
    Reader does gets the integers back *)
Theorem c09_round_trip : forall (BUF : Z) (dbg : bool) (vs : list (ity * Z)),
  39 <= BUF -> Forall (fun p => in_range (fst p) (snd p) = true) vs ->
  exists text, run BUF dbg [OWrite (VVec (int_values vs))] = Some (text, [])
               /\ parse_ints text = Some (map snd vs).
Proof. exact round_trip_final. Qed.

(** ---------- the correspondence check carries the specification ---------- *)

(** whenever the observation recorded in a case (bytes the sink received from the real
    Writer, sink sizes at the explicit flushes, or a panic) is what the verified model
    delivers, it is what the specification demands, computed independently of the model
    (standard-library decimal printer [Z.to_int], plain concatenation): so the batch lemma
    [forallb model_check cases = true] carries the property to the implementation on every
    sampled case by proof.  [in_scope c] (Corr.v) = the reported capacity is at least 39
    and the two verdicts the executor computes on the Rust side (same bytes as [to_string];
    [Reader] read the integers back) are positive; these two are inputs no model of the
    writer predicts, [spec_check] passes them through.  Nothing is assumed about the
    script: outside the property's quantifier [spec_check] is vacuous, inside it
    [in_scope_op] gives [wf_op].  In particular: no panic on a script of the quantifier. *)
Theorem c09_model_check_spec_check : forall c : case,
  in_scope c = true -> model_check c = true -> spec_check c = true.
Proof. exact model_check_spec_check_final. Qed.

(** the capacity hypothesis only serves to exclude a panic of the model itself: for an
    observation that is not a panic the implication holds at every capacity *)
Theorem c09_model_check_spec_check_any_capacity : forall c : case,
  c_obs c <> Panic -> executor_verdicts (c_obs c) = true -> model_check c = true -> spec_check c = true.
Proof. exact model_check_spec_check_any_capacity_final. Qed.

(** partial correctness at every capacity (also 0 < BUF < 39, also BUF <= 0): if the model
    does not panic, the sink holds the concatenation of the renderings after the drop and
    held everything written before at each explicit flush; a piece that does not fit
    panics, it is never truncated or reordered *)
Theorem c09_run_some_delivers : forall (BUF : Z) (dbg : bool) (ops : list op) (r : list byte * list Z),
  Forall wf_op ops -> run BUF dbg ops = Some r -> r = (rendering ops, Spec.flush_points ops 0).
Proof. exact run_delivers_final. Qed.

(** the digit loop's output is the numeral the standard library's [Z.to_int] prints
    ([dec], Corr.v), for every integer *)
Theorem c09_sdec_is_dec : forall v : Z, sdec v = dec v.
Proof. exact sdec_dec_final. Qed.
