(** C09 — property theorems (statements only; proofs by [exact]). *)
From Coq Require Import ZArith List Bool.
From RlibV Require Import C09.Model.
Open Scope Z_scope.
