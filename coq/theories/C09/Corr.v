(** C09 — correspondence cases.

    A case = the writer's configuration (BUF_SIZE reported by the hook, build
    flavour), the script of operations, and what the executor observed: the
    bytes the sink received over the writer's whole life (new .. drop), the
    sink's size right after every explicit flush, whether those bytes equal the
    concatenation of Rust's own [to_string] renderings, and whether reading them
    back through [Reader] returned the written integers.

    [model_check]: the model ([Model.run]) predicts exactly this observation.
    [spec_check]: the observation is what the property demands, computed without
    the model: concatenation of independent renderings (integers printed by the
    standard library's [Z.to_int], the decimal printer Coq itself uses). *)
From Coq Require Import ZArith NArith List Bool Decimal Uint63.
From RlibV Require Import Common.Batch C09.Model.
Import ListNotations.
Open Scope Z_scope.

(** ---------- compact encodings used by the case printer ----------
    Parsing a numeral costs time proportional to the size of the resulting
    binary term; a primitive 63-bit integer is one node.  Byte strings are
    therefore written as words holding a leading 1 followed by up to seven
    bytes (most significant first), long runs as (byte, count), and integer
    operands as limbs in base 10^18 (most significant first). *)
Definition small_Z (n : nat) (i : int) : Z := to_Z_rec n i.

(** the bytes of one word, pushed in front of [acc] *)
Fixpoint word_bytes (fuel : nat) (w : int) (acc : list byte) : list byte :=
  match fuel with
  | O => acc
  | S f => if (w <=? 1)%uint63 then acc
           else word_bytes f (w >> 8)%uint63 (small_Z 8 (w land 255)%uint63 :: acc)
  end.

(** [Cyc ws k]: the bytes of [Lit ws] repeated k times (strings of one multi-byte character,
    vectors of equal numbers: periodic but not constant) *)
Inductive seg := Lit (ws : list int) | Run (c : byte) (k : N) | Cyc (ws : list int) (k : N).
Arguments Lit ws%uint63.
Arguments Cyc ws%uint63 k%N.
Definition nrep (c : byte) (k : N) : list byte := N.iter k (cons c) [].
Fixpoint words_bytes (ws : list int) (tl : list byte) : list byte :=
  match ws with
  | [] => tl
  | w :: r => word_bytes 7 w (words_bytes r tl)
  end.
Fixpoint expand (ss : list seg) : list byte :=
  match ss with
  | [] => []
  | Lit ws :: r => words_bytes ws (expand r)
  | Run c k :: r => nrep c k ++ expand r
  | Cyc ws k :: r => N.iter k (words_bytes ws) (expand r)
  end.
Definition str (ss : list seg) : value := VStr (expand ss).
(** Vec of k copies of one value *)
Definition vrep (k : N) (v : value) : value := VVec (N.iter k (cons v) []).

(** integer operand: sign and limbs in base 10^18 *)
Definition zv (neg : bool) (limbs : list int) : Z :=
  let m := fold_left (fun a l => a * 1000000000000000000 + small_Z 63 l) limbs 0 in
  if neg then - m else m.
Arguments zv neg limbs%uint63.

(** The received bytes are stored as plain bytes: the case printer writes them in the
    compact form, [Ret (expand segs) ..], and the decoding happens when the batch is
    evaluated.  The case type and the two checks therefore do not mention the primitive
    63-bit integers (theorems about [model_check]/[spec_check] are closed under the
    global context). *)
Inductive obs :=
| Panic
| Ret (snk : list byte) (flushes : list Z) (same_as_to_string : bool) (read_back : option bool)
| TooLong (n : Z).  (* the sink received n bytes, too irregular to embed in a case term (never
                       happens on a correct writer: the generator makes long outputs from runs and
                       periodic stretches only); only the length is compared.  The case printer uses
                       it only when both executor verdicts are positive, otherwise it emits a [Ret]
                       with the head of the bytes and the negative verdict *)

Record case := Case { c_buf : Z; c_dbg : bool; c_ops : list op; c_obs : obs }.

Definition zl_eqb := leqb Z.eqb.

Definition model_check (c : case) : bool :=
  match run (c_buf c) (c_dbg c) (c_ops c), c_obs c with
  | None, Panic => true
  | Some (snk, fl), Ret snk' fl' _ _ => zl_eqb snk snk' && zl_eqb fl fl'
  | Some (snk, _), TooLong n => zlen snk =? n
  | _, _ => false
  end.

(** ---------- the specification, independent of the model ---------- *)
Fixpoint uint_bytes (d : uint) : list byte :=
  match d with
  | Nil => []
  | D0 r => 48 :: uint_bytes r | D1 r => 49 :: uint_bytes r | D2 r => 50 :: uint_bytes r
  | D3 r => 51 :: uint_bytes r | D4 r => 52 :: uint_bytes r | D5 r => 53 :: uint_bytes r
  | D6 r => 54 :: uint_bytes r | D7 r => 55 :: uint_bytes r | D8 r => 56 :: uint_bytes r
  | D9 r => 57 :: uint_bytes r
  end.
(** standard decimal formatting of an integer *)
Definition dec (z : Z) : list byte :=
  match Z.to_int z with
  | Decimal.Pos d => uint_bytes d
  | Decimal.Neg d => 45 :: uint_bytes d
  end.

Section Join.
Context {A : Type} (f : A -> list byte).
Fixpoint join (l : list A) : list byte :=
  match l with
  | [] => []
  | x :: r => match r with [] => f x | _ :: _ => f x ++ 32 :: join r end
  end.
End Join.

Fixpoint sp_value (v : value) : list byte :=
  match v with
  | VInt _ z => dec z
  | VStr b => b
  | VVec l => join sp_value l
  | VTup l => join sp_value l
  end.

Definition sp_op (o : op) : list byte :=
  match o with
  | OWrite v => sp_value v
  | OChar c => [c]
  | OFlush => []
  | OOut vs => join sp_value vs
  | OOutln vs => join sp_value vs ++ [10]
  end.

(** the property's quantifier: integers inside their type, ASCII chars and
    strings, tuple arity 2..8, out! with at least one argument *)
Fixpoint in_scope_value (v : value) : bool :=
  match v with
  | VInt t z => in_range t z
  | VStr b => forallb (fun x => (0 <=? x) && (x <? 128)) b
  | VVec l => forallb in_scope_value l
  | VTup l => forallb in_scope_value l && (2 <=? zlen l) && (zlen l <=? 8)
  end.
Definition in_scope_op (o : op) : bool :=
  match o with
  | OWrite v => in_scope_value v
  | OChar c => (0 <=? c) && (c <? 128)
  | OFlush => true
  | OOut vs => forallb in_scope_value vs && (1 <=? zlen vs)
  | OOutln vs => forallb in_scope_value vs
  end.

(** total number of bytes due at each explicit flush *)
Fixpoint flush_points (ops : list op) (n : Z) : list Z :=
  match ops with
  | [] => []
  | o :: r => let n1 := n + zlen (sp_op o) in
              match o with OFlush => n1 :: flush_points r n1 | _ => flush_points r n1 end
  end.

Definition spec_check (c : case) : bool :=
  if negb (forallb in_scope_op (c_ops c)) then true
  else match c_obs c with
       | Panic => false
       | Ret snk fl same rb =>
           zl_eqb snk (concat (map sp_op (c_ops c)))
           && zl_eqb fl (flush_points (c_ops c) 0)
           && same
           && match rb with Some false => false | _ => true end
       | TooLong n => zlen (concat (map sp_op (c_ops c))) =? n
       end.

(** ---------- side condition of [model_check c = true -> spec_check c = true] ----------
    (theorem [c09_model_check_spec_check], proved in ProofsCorr.v)

    [spec_check] looks at four things: the received bytes, the sink sizes at the explicit
    flushes, and two verdicts the executor computes itself on the Rust side: "the bytes
    equal the concatenation of the standard library's [to_string] renderings" and "[Reader]
    read the written integers back".  The model predicts the first two ([model_check]
    compares exactly these); the two verdicts are observations no model of the writer can
    predict, so they stay hypotheses: *)
Definition executor_verdicts (o : obs) : bool :=
  match o with
  | Ret _ _ same rb => same && match rb with Some false => false | _ => true end
  | Panic | TooLong _ => true
  end.
(** ... together with the capacity hypothesis of the property theorems (a u128 has up to
    39 digits and is copied as one piece: below 39 the model itself panics on such a
    script, and a panic observed on a script of the property's quantifier is a
    [spec_check] failure).  The real crate has BUF_SIZE = 65536.
    Nothing is asked of the script: scripts outside the property's quantifier
    ([in_scope_op]: integers in range, ASCII, arity 2..8, non-empty out!) make
    [spec_check] vacuously true, and for the others [in_scope_op] implies [Spec.wf_op]. *)
Definition in_scope (c : case) : bool :=
  (39 <=? c_buf c) && executor_verdicts (c_obs c).

(** for replay files: what the model delivers, with runs compressed again *)
Fixpoint compress (l : list byte) (cur : byte) (k : N) : list (byte * N) :=
  match l with
  | [] => [(cur, k)]
  | x :: r => if x =? cur then compress r cur (N.succ k) else (cur, k) :: compress r x 1%N
  end.
Definition explain (c : case) : option (list (byte * N) * list Z) :=
  match run (c_buf c) (c_dbg c) (c_ops c) with
  | None => None
  | Some (snk, fl) => Some (match snk with [] => [] | x :: r => compress r x 1%N end, fl)
  end.
