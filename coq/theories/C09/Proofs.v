(** C09 — proofs about the writer model.

    Structure: a state satisfies [ok] when the pending bytes fit the buffer;
    [appends f out] says that from every such state [f] does not panic, adds
    exactly [out] at the end of (sink ++ pending) and re-establishes [ok].
    Every layer of the writer (write_bytes, write_char, string chunks, the
    digit loop, signed, Vec, tuples, out!/outln!, scripts) is an [appends]
    of its specified rendering; the decimal lemmas relate the digit loop in a
    BASE_10_LEN buffer to the canonical decimal numeral. *)
From Coq Require Import ZArith List Bool Lia.
From RlibV Require Import Common.Iter C09.Model C09.Spec.
Import ListNotations.
Open Scope Z_scope.

(** ---------- lengths ---------- *)
Lemma zlen_acc_spec {A} (l : list A) : forall a, zlen_acc l a = a + Z.of_nat (length l).
Proof.
  induction l as [|x r IH]; intros a; cbn [zlen_acc length]; [lia|].
  rewrite IH. lia.
Qed.
Lemma zlen_length {A} (l : list A) : zlen l = Z.of_nat (length l).
Proof. unfold zlen. rewrite zlen_acc_spec. lia. Qed.
Lemma zlen_app {A} (a b : list A) : zlen (a ++ b) = zlen a + zlen b.
Proof. rewrite !zlen_length, app_length. lia. Qed.
Lemma zlen_nonneg {A} (l : list A) : 0 <= zlen l.
Proof. rewrite zlen_length. lia. Qed.
Lemma zlen_nil {A} : zlen (@nil A) = 0.
Proof. reflexivity. Qed.
Lemma zlen_cons {A} (x : A) l : zlen (x :: l) = 1 + zlen l.
Proof. rewrite !zlen_length. cbn [length]. lia. Qed.

Lemma rev'_rev {A} (l : list A) : rev' l = rev l.
Proof. unfold rev'. rewrite <- rev_alt. reflexivity. Qed.

(** ---------- the buffer ---------- *)
Definition content (s : state) : list byte := sink s ++ pending s.

Section W.
Variable BUF : Z.
Variable dbg : bool.
Hypothesis BUF_pos : 1 <= BUF.

Definition ok (s : state) : Prop := zlen (pending s) <= BUF.

(** [f] never panics from a state satisfying the invariant, appends exactly
    [out] to what the sink has or will receive, and keeps the invariant *)
Definition appends (f : state -> option state) (out : list byte) : Prop :=
  forall s, ok s -> exists s', f s = Some s' /\ content s' = content s ++ out /\ ok s'.

Lemma appends_ext f g out : (forall s, f s = g s) -> appends f out -> appends g out.
Proof. intros E H s Hs. rewrite <- E. apply H, Hs. Qed.

Lemma appends_ret : appends (fun s => Some s) [].
Proof. intros s Hs. exists s. rewrite app_nil_r. auto. Qed.

Lemma appends_bind f g a b :
  appends f a -> appends g b -> appends (fun s => bind (f s) g) (a ++ b).
Proof.
  intros Hf Hg s Hs. destruct (Hf s Hs) as (s1 & E1 & C1 & O1).
  destruct (Hg s1 O1) as (s2 & E2 & C2 & O2).
  exists s2. rewrite E1. cbn [bind]. split; [exact E2|]. split; [|exact O2].
  rewrite C2, C1, app_assoc. reflexivity.
Qed.

Lemma flush_content s : content (flush s) = content s.
Proof.
  unfold flush, content, write_all. destruct (pending s) as [|x r] eqn:E; cbn [pending sink].
  - rewrite E. reflexivity.
  - rewrite app_nil_r. reflexivity.
Qed.
Lemma flush_pending s : pending (flush s) = [].
Proof. unfold flush. destruct (pending s) eqn:E; cbn [pending]; [exact E|reflexivity]. Qed.
Lemma flush_ok s : ok (flush s).
Proof. unfold ok. rewrite flush_pending, zlen_nil. lia. Qed.
Lemma flush_sink s : sink (flush s) = content s.
Proof.
  unfold flush, content, write_all. destruct (pending s) as [|x r] eqn:E; cbn [sink]; [|reflexivity].
  rewrite app_nil_r. reflexivity.
Qed.

Lemma appends_flush : appends (fun s => Some (flush s)) [].
Proof.
  intros s _. exists (flush s). rewrite flush_content, app_nil_r. auto using flush_ok.
Qed.
Lemma appends_flush_dbg : appends (fun s => Some (flush_dbg dbg s)) [].
Proof.
  unfold flush_dbg. destruct dbg; [apply appends_flush|apply appends_ret].
Qed.

(** a piece that fits the buffer is never lost, duplicated or reordered *)
Lemma appends_write_bytes b : zlen b <= BUF -> appends (write_bytes BUF b) b.
Proof.
  intros Hb s Hs. unfold write_bytes, reserve.
  destruct (zlen (pending s) + zlen b >? BUF) eqn:E.
  - rewrite flush_pending, zlen_nil.
    destruct (0 + zlen b >? BUF) eqn:E2; [lia|].
    eexists. split; [reflexivity|]. unfold content, ok. cbn [pending sink].
    rewrite flush_sink, zlen_app, zlen_nil. unfold content. split; [reflexivity|lia].
  - rewrite E. eexists. split; [reflexivity|]. unfold content, ok. cbn [pending sink].
    rewrite zlen_app, app_assoc. split; [reflexivity|lia].
Qed.

(** without the size hypothesis the copy panics: the model says so *)
Lemma write_bytes_too_long b s : BUF < zlen b -> write_bytes BUF b s = None.
Proof.
  intros Hb. unfold write_bytes, reserve.
  pose proof (zlen_nonneg (pending s)) as Hp.
  destruct (zlen (pending s) + zlen b >? BUF) eqn:E; [|lia].
  rewrite flush_pending, zlen_nil. destruct (0 + zlen b >? BUF) eqn:E2; [reflexivity|lia].
Qed.

Lemma appends_then_dbg f out :
  appends f out -> appends (fun s => bind (f s) (fun s1 => Some (flush_dbg dbg s1))) out.
Proof.
  intros H. rewrite <- (app_nil_r out). apply appends_bind; [exact H|apply appends_flush_dbg].
Qed.

Lemma appends_write_char c : appends (write_char BUF dbg c) [c mod 256].
Proof.
  unfold write_char. apply appends_then_dbg. apply appends_write_bytes.
  rewrite zlen_cons, zlen_nil. lia.
Qed.
End W.
(** ---------- chunks ---------- *)
Lemma zlen_rev {A} (l : list A) : zlen (rev l) = zlen l.
Proof. rewrite !zlen_length, rev_length. reflexivity. Qed.
Lemma zlen_zero_nil {A} (l : list A) : zlen l = 0 -> l = [].
Proof. destruct l; [reflexivity|]. rewrite zlen_cons. pose proof (zlen_nonneg l). lia. Qed.

Lemma chunks_aux_spec {A} n : 1 <= n -> forall (l cur : list A) k, k = zlen cur -> k < n ->
  concat (chunks_aux n l cur k) = rev cur ++ l /\ Forall (fun c => zlen c <= n) (chunks_aux n l cur k).
Proof.
  intros Hn. induction l as [|x r IH]; intros cur k Hk Hlt; cbn [chunks_aux].
  - destruct (k =? 0) eqn:E.
    + assert (cur = []) as -> by (apply zlen_zero_nil; lia). cbn. auto.
    + rewrite rev'_rev. cbn [concat]. rewrite app_nil_r. split; [reflexivity|].
      constructor; [|constructor]. rewrite zlen_rev. lia.
  - destruct (k + 1 =? n) eqn:E.
    + destruct (IH [] 0) as [C F]; [reflexivity|lia|].
      rewrite rev'_rev. cbn [concat]. rewrite C. cbn [rev app]. rewrite <- app_assoc. cbn [app].
      split; [reflexivity|]. constructor; [|exact F].
      rewrite zlen_app, zlen_rev, zlen_cons, zlen_nil. lia.
    + destruct (IH (x :: cur) (k + 1)) as [C F]; [rewrite zlen_cons; lia|lia|].
      rewrite C. cbn [rev]. rewrite <- app_assoc. cbn [app]. auto.
Qed.

Section W2.
Variable BUF : Z.
Variable dbg : bool.
Hypothesis BUF_pos : 1 <= BUF.

Lemma appends_write_chunks cs : Forall (fun c => zlen c <= BUF) cs ->
  appends BUF (write_chunks BUF cs) (concat cs).
Proof.
  induction 1 as [|c r Hc _ IH]; cbn [write_chunks concat]; [apply appends_ret|].
  apply appends_bind; [apply appends_write_bytes; assumption|exact IH].
Qed.

Lemma appends_write_str b : appends BUF (write_str BUF b) b.
Proof.
  unfold write_str, chunks. destruct (BUF <=? 0) eqn:E; [lia|]. cbn [bind].
  destruct (chunks_aux_spec BUF BUF_pos b [] 0) as [C F]; [reflexivity|lia|].
  cbn [rev app] in C. pose proof (appends_write_chunks _ F) as H. rewrite C in H. exact H.
Qed.
End W2.

(** ---------- decimal digits ---------- *)
Lemma udigits_zero n acc : udigits n 0 acc = acc.
Proof. destruct n; reflexivity. Qed.

Lemma pow10_S n : 10 ^ Z.of_nat (S n) = 10 * 10 ^ Z.of_nat n.
Proof. rewrite Nat2Z.inj_succ, Z.pow_succ_r by lia. reflexivity. Qed.

Lemma div10_lt v n : 0 <= v < 10 * n -> 0 <= v / 10 < n.
Proof. intros H. split; [apply Z.div_pos; lia|apply Z.div_lt_upper_bound; lia]. Qed.

Lemma digit_loop_udigits n : forall v acc, 0 <= v < 10 ^ Z.of_nat n ->
  digit_loop n v acc = Some (udigits n v acc).
Proof.
  induction n as [|k IH]; intros v acc Hv.
  - change (10 ^ Z.of_nat 0) with 1 in Hv. assert (v = 0) as -> by lia. reflexivity.
  - cbn [digit_loop udigits]. destruct (v =? 0) eqn:E; [reflexivity|].
    rewrite pow10_S in Hv.
    assert (Hq : v / 10 = fst (Z.div_eucl v 10)) by reflexivity.
    assert (Hr : v mod 10 = snd (Z.div_eucl v 10)) by reflexivity.
    destruct (Z.div_eucl v 10) as [q r]. cbn [fst snd] in Hq, Hr. subst q r.
    apply IH. apply div10_lt. exact Hv.
Qed.

Lemma udigits_fuel n : forall m v acc, 0 <= v < 10 ^ Z.of_nat n -> 0 <= v < 10 ^ Z.of_nat m ->
  udigits n v acc = udigits m v acc.
Proof.
  induction n as [|k IH]; intros m v acc Hn Hm.
  - change (10 ^ Z.of_nat 0) with 1 in Hn. assert (v = 0) as -> by lia.
    rewrite !udigits_zero. reflexivity.
  - cbn [udigits]. destruct (v =? 0) eqn:E.
    + assert (v = 0) as -> by lia. rewrite udigits_zero. reflexivity.
    + destruct m as [|m].
      * change (10 ^ Z.of_nat 0) with 1 in Hm. lia.
      * cbn [udigits]. rewrite E. rewrite pow10_S in Hn, Hm.
        apply IH; apply div10_lt; assumption.
Qed.

Lemma udigits_acc n : forall v acc, udigits n v acc = udigits n v [] ++ acc.
Proof.
  induction n as [|k IH]; intros v acc; cbn [udigits]; [reflexivity|].
  destruct (v =? 0); [reflexivity|].
  rewrite (IH _ (_ :: acc)), (IH _ [_]), <- app_assoc. reflexivity.
Qed.

Lemma udigits_step k v : v <> 0 ->
  udigits (S k) v [] = udigits k (v / 10) [] ++ [v mod 10 + 48].
Proof.
  intros Hv. cbn [udigits]. destruct (v =? 0) eqn:E; [lia|]. apply udigits_acc.
Qed.

Lemma dval_snoc ds d : dval (ds ++ [d]) = dval ds * 10 + (d - 48).
Proof. unfold dval. rewrite fold_left_app. reflexivity. Qed.

Lemma udigits_props n : forall v, 0 <= v < 10 ^ Z.of_nat n ->
  dval (udigits n v []) = v /\ Forall is_digit (udigits n v [])
  /\ zlen (udigits n v []) <= Z.of_nat n
  /\ (0 < v -> udigits n v [] <> [] /\ hd 0 (udigits n v []) <> 48).
Proof.
  induction n as [|k IH]; intros v Hv.
  - change (10 ^ Z.of_nat 0) with 1 in Hv. cbn [udigits]. unfold dval. cbn.
    repeat split; try lia; constructor.
  - destruct (Z.eq_dec v 0) as [->|Hnz].
    + rewrite udigits_zero. unfold dval. cbn [fold_left].
      repeat split; try lia; try constructor. rewrite zlen_nil. lia.
    + rewrite udigits_step by exact Hnz. rewrite pow10_S in Hv.
      destruct (IH (v / 10) (div10_lt _ _ Hv)) as (D & F & L & H).
      pose proof (Z.mod_pos_bound v 10 ltac:(lia)) as Hm.
      pose proof (Z.div_mod v 10 ltac:(lia)) as Hdm.
      split; [rewrite dval_snoc, D; lia|].
      split; [apply Forall_app; split; [exact F|constructor; [unfold is_digit; lia|constructor]]|].
      split; [rewrite zlen_app, zlen_cons, zlen_nil; lia|].
      intros Hpos. split; [intros E; apply app_eq_nil in E; destruct E; discriminate|].
      destruct (Z.eq_dec (v / 10) 0) as [Hq|Hq].
      * rewrite Hq, udigits_zero. cbn [app hd]. lia.
      * destruct H as [Hne Hhd]; [pose proof (Z.div_pos v 10); lia|].
        destruct (udigits k (v / 10) []) as [|d r]; [congruence|]. exact Hhd.
Qed.

Lemma pow2_le_pow10 k : 0 <= k -> 2 ^ k <= 10 ^ k.
Proof. intros Hk. apply Z.pow_le_mono_l. lia. Qed.

Lemma udec_fuel_ok v : 0 < v -> 0 <= v < 10 ^ Z.of_nat (S (Z.to_nat (Z.log2 v))).
Proof.
  intros Hv. split; [lia|].
  pose proof (Z.log2_spec v Hv) as [_ H]. pose proof (Z.log2_nonneg v) as Hl.
  rewrite Nat2Z.inj_succ, Z2Nat.id by exact Hl.
  pose proof (pow2_le_pow10 (Z.succ (Z.log2 v)) ltac:(lia)). lia.
Qed.

(** the spec's digits do not depend on the fuel they were computed with *)
Lemma udec_udigits v n : 0 < v < 10 ^ Z.of_nat n -> udec v = udigits n v [].
Proof.
  intros Hv. unfold udec. destruct (v =? 0) eqn:E; [lia|].
  apply udigits_fuel; [apply udec_fuel_ok; lia|lia].
Qed.

Lemma udec_canon v : 0 <= v ->
  udec v <> [] /\ Forall is_digit (udec v) /\ dval (udec v) = v /\ (hd 0 (udec v) = 48 -> udec v = [48]).
Proof.
  intros Hv. destruct (Z.eq_dec v 0) as [->|Hnz].
  - unfold udec, dval. cbn. repeat split; try discriminate; auto.
    constructor; [unfold is_digit; lia|constructor].
  - assert (Hpos : 0 < v) by lia.
    rewrite (udec_udigits v _ (conj Hpos (proj2 (udec_fuel_ok v Hpos)))).
    destruct (udigits_props _ v (udec_fuel_ok v Hpos)) as (D & F & _ & H).
    destruct (H Hpos) as [Hne Hhd]. repeat split; auto. intros E. contradiction.
Qed.

Lemma sdec_canonical v : canonical_decimal (sdec v) v.
Proof.
  unfold canonical_decimal, sdec. destruct (v <? 0) eqn:E.
  - exists (udec (- v)). destruct (udec_canon (- v)) as (A & B & C & D); [lia|].
    repeat split; auto. rewrite C. lia.
  - exists (udec v). destruct (udec_canon v) as (A & B & C & D); [lia|].
    repeat split; auto. rewrite C. lia.
Qed.

(** ---------- BASE_10_LEN ---------- *)
Lemma BASE_10_LEN_loop t : BASE_10_LEN t = base_10_len (bits t).
Proof. destruct t; vm_compute; reflexivity. Qed.

Lemma BASE_10_LEN_digits t : exists L, BASE_10_LEN t = Some L /\ 1 <= L <= 39
  /\ 10 ^ (L - 1) <= 2 ^ bits t - 1 < 10 ^ L.
Proof.
  destruct t; eexists; (split; [reflexivity|]); (split; [lia|]); vm_compute; split; congruence.
Qed.

Lemma zlen_udec_le v L : 0 <= L -> 0 < v < 10 ^ L -> zlen (udec v) <= L.
Proof.
  intros HL Hv. rewrite <- (Z2Nat.id L HL) in Hv.
  rewrite (udec_udigits v _ Hv).
  destruct (udigits_props (Z.to_nat L) v) as (_ & _ & Hlen & _); [lia|]. lia.
Qed.

(** the stack buffer of BASE_10_LEN bytes is large enough for every value of the type *)
Lemma digit_loop_fits t v : 0 < v < 2 ^ bits t -> exists L, BASE_10_LEN t = Some L
  /\ digit_loop (Z.to_nat L) v [] = Some (udec v) /\ zlen (udec v) <= L <= 39.
Proof.
  intros Hv. destruct (BASE_10_LEN_digits t) as (L & E & HL & Hd).
  exists L. split; [exact E|].
  assert (Hv' : 0 < v < 10 ^ Z.of_nat (Z.to_nat L)) by (rewrite Z2Nat.id by lia; lia).
  split.
  - rewrite digit_loop_udigits by lia. rewrite (udec_udigits v _ Hv'). reflexivity.
  - split; [apply zlen_udec_le; lia|lia].
Qed.
(** ---------- writing integers ---------- *)
Lemma join_cons {A} (f : A -> list byte) x r :
  join f (x :: r) = f x ++ concat (map (fun y => 32 :: f y) r).
Proof.
  revert x. induction r as [|y r IH]; intros x.
  - cbn. rewrite app_nil_r. reflexivity.
  - change (join f (x :: y :: r)) with (f x ++ 32 :: join f (y :: r)).
    rewrite IH. reflexivity.
Qed.

Lemma in_range_unsigned t v : is_signed t = false -> in_range t v = true -> 0 <= v < 2 ^ bits t.
Proof. unfold in_range. intros ->. lia. Qed.
Lemma in_range_signed t v : is_signed t = true -> in_range t v = true ->
  - 2 ^ (bits t - 1) <= v < 2 ^ (bits t - 1).
Proof. unfold in_range. intros ->. lia. Qed.
Lemma bits_pos t : 8 <= bits t.
Proof. destruct t; cbn; lia. Qed.
Lemma pow2_half t : 2 ^ bits t = 2 * 2 ^ (bits t - 1).
Proof.
  pose proof (bits_pos t). rewrite <- Z.pow_succ_r by lia. f_equal. lia.
Qed.

(** unsigned_abs never wraps, not even on MIN *)
Lemma unsigned_abs_exact t v : is_signed t = true -> in_range t v = true ->
  unsigned_abs (bits t) v = Z.abs v /\ 0 <= Z.abs v < 2 ^ bits t.
Proof.
  intros Hs Hr. pose proof (in_range_signed t v Hs Hr) as H. pose proof (pow2_half t) as Hh.
  assert (0 < 2 ^ (bits t - 1)) by (apply Z.pow_pos_nonneg; pose proof (bits_pos t); lia).
  unfold unsigned_abs. split; [apply Z.mod_small|]; lia.
Qed.

Section W3.
Variable BUF : Z.
Variable dbg : bool.
Hypothesis BUF_big : 39 <= BUF.
Let BUF_pos : 1 <= BUF.
Proof. lia. Qed.

Notation appends := (appends BUF).

Lemma appends_write_unsigned t v : 0 <= v < 2 ^ bits t ->
  appends (write_unsigned BUF dbg t v) (udec v).
Proof.
  intros Hv. unfold write_unsigned. destruct (v =? 0) eqn:E.
  - assert (v = 0) as -> by lia. exact (appends_write_char BUF dbg BUF_pos 48).
  - destruct (digit_loop_fits t v) as (L & EL & ED & Hlen); [lia|].
    intros s Hs. rewrite EL. cbn [bind]. rewrite ED. cbn [bind].
    apply appends_write_bytes; [lia|exact Hs].
Qed.

Lemma appends_write_signed t v : is_signed t = true -> in_range t v = true ->
  appends (write_signed BUF dbg t v) (sdec v).
Proof.
  intros Hs Hr. destruct (unsigned_abs_exact t v Hs Hr) as [Ea Ha].
  unfold write_signed, sdec. rewrite Ea. destruct (v <? 0) eqn:E.
  - replace (- v) with (Z.abs v) by lia.
    change (45 :: udec (Z.abs v)) with ([45 mod 256] ++ udec (Z.abs v)).
    apply appends_bind; [apply appends_write_char, BUF_pos|].
    apply (appends_then_dbg BUF dbg BUF_pos), appends_write_unsigned, Ha.
  - assert (Hab : Z.abs v = v) by lia. rewrite Hab in *.
    apply (appends_bind BUF (fun s => Some s) _ [] _ (appends_ret BUF)).
    apply (appends_then_dbg BUF dbg BUF_pos), appends_write_unsigned, Ha.
Qed.

Lemma appends_write_int t v : in_range t v = true ->
  appends (wr BUF dbg (VInt t v)) (sdec v).
Proof.
  intros Hr. cbn [wr]. destruct (is_signed t) eqn:Hs.
  - apply appends_write_signed; assumption.
  - pose proof (in_range_unsigned t v Hs Hr) as Hv.
    unfold sdec. destruct (v <? 0) eqn:E; [lia|]. apply appends_write_unsigned, Hv.
Qed.

(** ---------- vectors, tuples ---------- *)
Lemma appends_bind_dbg f g a b :
  appends f a -> appends g b ->
  appends (fun s => bind (f s) (fun s1 => g (flush_dbg dbg s1))) (a ++ b).
Proof.
  intros Hf Hg s Hs. destruct (Hf s Hs) as (s1 & E1 & C1 & O1).
  destruct (appends_flush_dbg BUF dbg BUF_pos s1 O1) as (s2 & E2 & C2 & O2).
  injection E2 as <-. rewrite app_nil_r in C2.
  destruct (Hg _ O2) as (s3 & E3 & C3 & O3).
  exists s3. rewrite E1. cbn [bind]. split; [exact E3|]. split; [|exact O3].
  rewrite C3, C2, C1, app_assoc. reflexivity.
Qed.

Fixpoint vec_go (first : bool) (l : list value) (s : state) {struct l} : option state :=
  match l with
  | [] => Some s
  | x :: r =>
      bind (if first then Some s else write_char BUF dbg 32 s) (fun s1 =>
      bind (wr BUF dbg x s1) (fun s2 => vec_go false r (flush_dbg dbg s2)))
  end.
Fixpoint tup_go (l : list value) (s : state) {struct l} : option state :=
  match l with
  | [] => Some s
  | y :: r' =>
      bind (write_char BUF dbg 32 s) (fun s2 =>
      bind (wr BUF dbg y s2) (fun s3 => tup_go r' (flush_dbg dbg s3)))
  end.
Lemma wr_vec l s : wr BUF dbg (VVec l) s = vec_go true l s.
Proof. reflexivity. Qed.
Lemma wr_tup x r s : wr BUF dbg (VTup (x :: r)) s =
  bind (wr BUF dbg x s) (fun s1 => tup_go r (flush_dbg dbg s1)).
Proof. reflexivity. Qed.

Definition good (v : value) : Prop := wf_value v -> appends (wr BUF dbg v) (render v).

Lemma appends_vec_go_false l : Forall good l -> wf_values l ->
  appends (vec_go false l) (concat (map (fun y => 32 :: render y) l)).
Proof.
  induction 1 as [|x r Hx _ IH]; intros Hwf; cbn [vec_go map concat]; [apply appends_ret|].
  destruct Hwf as [Hwx Hwr].
  change (32 :: render x) with ([32 mod 256] ++ render x). rewrite <- app_assoc.
  apply appends_bind; [apply appends_write_char, BUF_pos|].
  apply appends_bind_dbg; [apply Hx, Hwx|apply IH, Hwr].
Qed.

Lemma appends_vec_go_true l : Forall good l -> wf_values l ->
  appends (vec_go true l) (join render l).
Proof.
  intros HF Hwf. destruct l as [|x r]; [apply appends_ret|].
  rewrite join_cons. cbn [vec_go]. inversion HF as [|? ? Hx Hr]; subst. destruct Hwf as [Hwx Hwr].
  apply (appends_bind BUF (fun s => Some s) _ [] _ (appends_ret BUF)).
  apply appends_bind_dbg; [apply Hx, Hwx|apply appends_vec_go_false; assumption].
Qed.

Lemma appends_tup_go l : Forall good l -> wf_values l ->
  appends (tup_go l) (concat (map (fun y => 32 :: render y) l)).
Proof.
  induction 1 as [|x r Hx _ IH]; intros Hwf; cbn [tup_go map concat]; [apply appends_ret|].
  destruct Hwf as [Hwx Hwr].
  change (32 :: render x) with ([32 mod 256] ++ render x). rewrite <- app_assoc.
  apply appends_bind; [apply appends_write_char, BUF_pos|].
  apply appends_bind_dbg; [apply Hx, Hwx|apply IH, Hwr].
Qed.

Lemma wf_all_values l :
  (fix all (l : list value) : Prop := match l with [] => True | x :: r => wf_value x /\ all r end) l
  = wf_values l.
Proof. induction l as [|x r IH]; [reflexivity|]. cbn [wf_values]. rewrite <- IH. reflexivity. Qed.

Section ValInd.
Variable P : value -> Prop.
Hypothesis HI : forall t z, P (VInt t z).
Hypothesis HS : forall b, P (VStr b).
Hypothesis HV : forall l, Forall P l -> P (VVec l).
Hypothesis HT : forall l, Forall P l -> P (VTup l).
Fixpoint value_ind' (v : value) : P v :=
  match v with
  | VInt t z => HI t z
  | VStr b => HS b
  | VVec l => HV l ((fix go (l : list value) : Forall P l :=
                       match l with [] => Forall_nil P | x :: r => Forall_cons x (value_ind' x) (go r) end) l)
  | VTup l => HT l ((fix go (l : list value) : Forall P l :=
                       match l with [] => Forall_nil P | x :: r => Forall_cons x (value_ind' x) (go r) end) l)
  end.
End ValInd.

Lemma appends_wr v : wf_value v -> appends (wr BUF dbg v) (render v).
Proof.
  change (good v). induction v as [t z|b|l IH|l IH] using value_ind'; intros Hwf.
  - apply appends_write_int, Hwf.
  - exact (appends_write_str BUF BUF_pos b).
  - cbn [wf_value] in Hwf. rewrite wf_all_values in Hwf.
    apply (appends_ext BUF (vec_go true l)); [intros s; symmetry; apply wr_vec|].
    apply appends_vec_go_true; assumption.
  - cbn [wf_value] in Hwf. rewrite wf_all_values in Hwf. destruct Hwf as [Hwf Hlen].
    destruct l as [|x r]; [cbn in Hlen; lia|].
    apply (appends_ext BUF (fun s => bind (wr BUF dbg x s) (fun s1 => tup_go r (flush_dbg dbg s1))));
      [intros s; symmetry; apply wr_tup|].
    cbn [render]. rewrite join_cons. inversion IH as [|? ? Hx Hr]; subst. destruct Hwf as [Hwx Hwr].
    apply appends_bind_dbg; [apply Hx, Hwx|apply appends_tup_go; assumption].
Qed.

Lemma appends_write v : wf_value v -> appends (write BUF dbg v) (render v).
Proof. intros H. unfold write. apply (appends_then_dbg BUF dbg BUF_pos), appends_wr, H. Qed.

Lemma appends_out_impl vs : wf_values vs -> vs <> [] -> appends (out_impl BUF dbg vs) (join render vs).
Proof.
  induction vs as [|x r IH]; intros Hwf Hne; [congruence|]. destruct Hwf as [Hwx Hwr].
  destruct r as [|y r].
  - cbn [out_impl join]. apply appends_write, Hwx.
  - change (join render (x :: y :: r)) with (render x ++ [32 mod 256] ++ join render (y :: r)).
    change (out_impl BUF dbg (x :: y :: r)) with
      (fun s => bind (write BUF dbg x s) (fun s1 => bind (write_char BUF dbg 32 s1) (out_impl BUF dbg (y :: r)))).
    apply appends_bind; [apply appends_write, Hwx|].
    apply appends_bind; [apply appends_write_char, BUF_pos|]. apply IH; [exact Hwr|discriminate].
Qed.

Lemma appends_step o : wf_op o -> appends (step BUF dbg o) (render_op o).
Proof.
  destruct o as [v|c| |vs|vs]; cbn [wf_op step render_op]; intros Hwf.
  - apply appends_write, Hwf.
  - apply appends_write_char, BUF_pos.
  - apply appends_flush, BUF_pos.
  - destruct Hwf. apply appends_out_impl; assumption.
  - destruct vs as [|x r].
    + exact (appends_write_char BUF dbg BUF_pos 10).
    + change [10] with [10 mod 256].
      apply appends_bind; [apply appends_out_impl; [exact Hwf|discriminate]|apply appends_write_char, BUF_pos].
Qed.

(** ---------- whole scripts ---------- *)
Lemma exec_spec ops : Forall wf_op ops -> forall s tr, ok BUF s ->
  exists s', exec BUF dbg ops s tr = Some (s', rev (flush_points ops (zlen (content s))) ++ tr)
             /\ content s' = content s ++ rendering ops /\ ok BUF s'.
Proof.
  induction 1 as [|o r Ho _ IH]; intros s tr Hs; cbn [exec flush_points].
  - exists s. unfold rendering. cbn. rewrite app_nil_r. auto.
  - destruct (appends_step o Ho s Hs) as (s1 & E1 & C1 & O1). rewrite E1. cbn [bind].
    assert (Hn : zlen (content s) + zlen (render_op o) = zlen (content s1))
      by (rewrite C1, zlen_app; reflexivity).
    rewrite Hn.
    destruct (IH s1 (match o with OFlush => zlen (sink s1) :: tr | _ => tr end) O1) as (s' & E' & C' & O').
    exists s'. split; [|split; [|exact O']].
    + rewrite E'. f_equal. f_equal.
      destruct o; try reflexivity.
      cbn [rev]. rewrite <- app_assoc. cbn [app]. do 2 f_equal.
      cbn [step] in E1. injection E1 as <-. rewrite flush_sink, flush_content. reflexivity.
    + rewrite C', C1. unfold rendering. cbn [map concat]. rewrite app_assoc. reflexivity.
Qed.

Lemma ok_init : ok BUF init.
Proof. unfold ok. cbn. lia. Qed.

Lemma invariant ops : Forall wf_op ops ->
  exists s tr, exec BUF dbg ops init [] = Some (s, tr)
               /\ sink s ++ pending s = rendering ops /\ zlen (pending s) <= BUF.
Proof.
  intros H. destruct (exec_spec ops H init [] ok_init) as (s & E & C & O).
  exists s. eexists. split; [exact E|]. split; [exact C|exact O].
Qed.

Lemma flush_delivers ops : Forall wf_op ops ->
  exists s tr, exec BUF dbg ops init [] = Some (s, tr)
     /\ sink (flush s) = rendering ops /\ pending (flush s) = []
     /\ sink (drop s) = rendering ops
     /\ run BUF dbg ops = Some (rendering ops, flush_points ops 0).
Proof.
  intros H. destruct (exec_spec ops H init [] ok_init) as (s & E & C & O).
  exists s. eexists. split; [exact E|].
  change (content init) with (@nil byte) in *. cbn [app] in C.
  split; [rewrite flush_sink; exact C|]. split; [apply flush_pending|].
  split; [unfold drop; rewrite flush_sink; exact C|].
  unfold run. rewrite E. cbn [bind]. unfold drop. rewrite flush_sink, C, rev'_rev, app_nil_r, rev_involutive.
  reflexivity.
Qed.
End W3.
(** ---------- reading the text back ---------- *)
Definition clean (tok : list byte) : Prop := tok <> [] /\ Forall (fun b => is_ws b = false) tok.

Lemma tokens_app tok : Forall (fun b => is_ws b = false) tok -> forall rest cur,
  tokens (tok ++ rest) cur = tokens rest (rev tok ++ cur).
Proof.
  induction 1 as [|b r Hb _ IH]; intros rest cur; [reflexivity|].
  cbn [app tokens rev]. rewrite Hb, IH, <- app_assoc. reflexivity.
Qed.

Lemma tokens_join {A} (f : A -> list byte) l : Forall (fun x => clean (f x)) l ->
  tokens (join f l) [] = map f l.
Proof.
  induction 1 as [|x r [Hne Hx] _ IH]; [reflexivity|].
  assert (Hrev : rev (f x) <> []).
  { intros E. apply Hne. rewrite <- (rev_involutive (f x)), E. reflexivity. }
  cbn [join map]. destruct r as [|y r].
  - rewrite <- (app_nil_r (f x)) at 1. rewrite tokens_app by exact Hx. rewrite app_nil_r.
    cbn [tokens]. destruct (rev (f x)) eqn:E; [congruence|]. rewrite <- E, rev_involutive. reflexivity.
  - rewrite tokens_app by exact Hx. rewrite app_nil_r.
    cbn [tokens]. change (is_ws 32) with true. cbv iota.
    destruct (rev (f x)) eqn:E; [congruence|]. rewrite <- E, rev_involutive, IH. reflexivity.
Qed.

Lemma digits_ok ds : Forall is_digit ds -> forallb digit_ok ds = true.
Proof.
  induction 1 as [|d r Hd _ IH]; [reflexivity|]. cbn [forallb]. rewrite IH.
  unfold digit_ok, is_digit in *. lia.
Qed.
Lemma digits_clean ds : Forall is_digit ds -> Forall (fun b => is_ws b = false) ds.
Proof.
  intros H. eapply Forall_impl; [|exact H]. intros b Hb. unfold is_digit in Hb. unfold is_ws. lia.
Qed.

Lemma sdec_clean v : clean (sdec v).
Proof.
  unfold sdec, clean. destruct (v <? 0) eqn:E.
  - destruct (udec_canon (- v)) as (_ & F & _); [lia|]. split; [discriminate|].
    constructor; [reflexivity|apply digits_clean, F].
  - destruct (udec_canon v) as (N & F & _); [lia|]. split; [exact N|apply digits_clean, F].
Qed.

Lemma fold_neg ds : forall a,
  fold_left (fun a d => a * 10 - (d - 48)) ds (- a) = - fold_left (fun a d => a * 10 + (d - 48)) ds a.
Proof.
  induction ds as [|d r IH]; intros a; [reflexivity|]. cbn [fold_left].
  replace (- a * 10 - (d - 48)) with (- (a * 10 + (d - 48))) by lia. apply IH.
Qed.

Lemma parse_int_sdec v : parse_int (sdec v) = Some v.
Proof.
  unfold sdec. destruct (v <? 0) eqn:E.
  - destruct (udec_canon (- v)) as (N & F & D & _); [lia|].
    cbn [parse_int]. change (45 =? 45) with true. cbv iota.
    rewrite (digits_ok _ F).
    assert (zlen (udec (- v)) =? 0 = false) as ->.
    { destruct (udec (- v)); [congruence|]. rewrite zlen_cons. pose proof (zlen_nonneg l). lia. }
    cbn [andb negb]. change 0 with (- 0) at 1. rewrite fold_neg. fold (dval (udec (- v))). rewrite D. f_equal. lia.
  - destruct (udec_canon v) as (N & F & D & _); [lia|].
    destruct (udec v) as [|b ds] eqn:Eu; [congruence|].
    cbn [parse_int]. assert (Hb : is_digit b) by (inversion F; assumption).
    assert (b =? 45 = false) as -> by (unfold is_digit in Hb; lia).
    rewrite (digits_ok _ F). f_equal. exact D.
Qed.

Lemma all_some_parse vs : all_some (map parse_int (map sdec vs)) = Some vs.
Proof.
  induction vs as [|v r IH]; [reflexivity|]. cbn [map all_some]. rewrite parse_int_sdec, IH. reflexivity.
Qed.


Lemma round_trip BUF dbg vs : 39 <= BUF ->
  Forall (fun p => in_range (fst p) (snd p) = true) vs ->
  exists text, run BUF dbg [OWrite (VVec (int_values vs))] = Some (text, [])
               /\ parse_ints text = Some (map snd vs).
Proof.
  intros HB Hr.
  assert (Hwf : Forall wf_op [OWrite (VVec (int_values vs))]).
  { constructor; [|constructor]. cbn [wf_op wf_value]. rewrite wf_all_values.
    induction Hr as [|p r Hp _ IH]; cbn; auto. }
  destruct (flush_delivers BUF dbg HB _ Hwf) as (s & tr & _ & _ & _ & _ & R).
  eexists. split; [exact R|].
  unfold rendering, parse_ints. cbn [map concat render_op render]. rewrite app_nil_r.
  rewrite tokens_join.
  - assert (map render (int_values vs) = map sdec (map snd vs)) as ->
      by (unfold int_values; rewrite !map_map; reflexivity).
    apply all_some_parse.
  - unfold int_values. apply Forall_map. apply Forall_forall. intros p _. apply sdec_clean.
Qed.

(** ---------- the rendering theorems in their final form ---------- *)
Lemma render_unsigned t v : is_signed t = false -> in_range t v = true ->
  canonical_decimal (sdec v) v
  /\ exists L, BASE_10_LEN t = Some L /\ zlen (sdec v) <= L
     /\ (v <> 0 -> digit_loop (Z.to_nat L) v [] = Some (sdec v)).
Proof.
  intros Hs Hr. pose proof (in_range_unsigned t v Hs Hr) as Hv.
  split; [apply sdec_canonical|].
  assert (Hsd : sdec v = udec v) by (unfold sdec; destruct (v <? 0) eqn:E; [lia|reflexivity]).
  rewrite Hsd. destruct (Z.eq_dec v 0) as [->|Hnz].
  - destruct (BASE_10_LEN_digits t) as (L & E & HL & _). exists L. split; [exact E|].
    split; [change (zlen (udec 0)) with 1; lia|congruence].
  - destruct (digit_loop_fits t v) as (L & E & D & Hlen); [lia|].
    exists L. split; [exact E|]. split; [lia|]. intros _. exact D.
Qed.

Lemma render_signed t v : is_signed t = true -> in_range t v = true ->
  canonical_decimal (sdec v) v
  /\ unsigned_abs (bits t) v = Z.abs v
  /\ exists L, BASE_10_LEN t = Some L /\ zlen (sdec v) <= L + 1
     /\ (v <> 0 -> digit_loop (Z.to_nat L) (unsigned_abs (bits t) v) [] = Some (sdec (Z.abs v))).
Proof.
  intros Hs Hr. destruct (unsigned_abs_exact t v Hs Hr) as [Ea Ha].
  split; [apply sdec_canonical|]. split; [exact Ea|]. rewrite Ea.
  assert (Hsd : sdec (Z.abs v) = udec (Z.abs v))
    by (unfold sdec; destruct (Z.abs v <? 0) eqn:E; [lia|reflexivity]).
  assert (Hlen : zlen (sdec v) <= zlen (udec (Z.abs v)) + 1).
  { unfold sdec. destruct (v <? 0) eqn:E.
    - rewrite zlen_cons. replace (- v) with (Z.abs v) by lia. lia.
    - replace (Z.abs v) with v by lia. lia. }
  rewrite Hsd. destruct (Z.eq_dec v 0) as [->|Hnz].
  - destruct (BASE_10_LEN_digits t) as (L & E & HL & _). exists L. split; [exact E|].
    split; [change (zlen (sdec 0)) with 1; lia|congruence].
  - destruct (digit_loop_fits t (Z.abs v)) as (L & E & D & Hl); [lia|].
    exists L. split; [exact E|]. split; [lia|]. intros _. exact D.
Qed.

Lemma base10len t : exists L, base_10_len (bits t) = Some L /\ BASE_10_LEN t = Some L
  /\ 10 ^ (L - 1) <= 2 ^ bits t - 1 < 10 ^ L.
Proof.
  destruct (BASE_10_LEN_digits t) as (L & E & _ & H). exists L.
  rewrite <- BASE_10_LEN_loop. auto.
Qed.

(** ---------- final forms (argument order of Properties.v) ---------- *)
Lemma invariant_final : forall (BUF : Z) (dbg : bool) (ops : list op),
  39 <= BUF -> Forall wf_op ops ->
  exists s tr, exec BUF dbg ops init [] = Some (s, tr)
               /\ sink s ++ pending s = rendering ops /\ zlen (pending s) <= BUF.
Proof. intros BUF dbg ops HB. exact (invariant BUF dbg HB ops). Qed.

Lemma flush_delivers_final : forall (BUF : Z) (dbg : bool) (ops : list op),
  39 <= BUF -> Forall wf_op ops ->
  exists s tr, exec BUF dbg ops init [] = Some (s, tr)
     /\ sink (flush s) = rendering ops /\ pending (flush s) = []
     /\ sink (drop s) = rendering ops
     /\ run BUF dbg ops = Some (rendering ops, flush_points ops 0).
Proof. intros BUF dbg ops HB. exact (flush_delivers BUF dbg HB ops). Qed.

Lemma piece_final : forall (BUF : Z) (b : list byte) (s : state),
  1 <= BUF -> zlen b <= BUF -> zlen (pending s) <= BUF ->
  exists s', write_bytes BUF b s = Some s'
             /\ sink s' ++ pending s' = (sink s ++ pending s) ++ b /\ zlen (pending s') <= BUF.
Proof. intros BUF b s _ Hb Hs. exact (appends_write_bytes BUF b Hb s Hs). Qed.

Lemma string_final : forall (BUF : Z) (dbg : bool) (b : list byte) (s : state),
  1 <= BUF -> zlen (pending s) <= BUF ->
  exists s', write BUF dbg (VStr b) s = Some s'
             /\ sink s' ++ pending s' = (sink s ++ pending s) ++ b /\ zlen (pending s') <= BUF.
Proof.
  intros BUF dbg b s HB Hs.
  exact (appends_then_dbg BUF dbg HB _ _ (appends_write_str BUF HB b) s Hs).
Qed.

Lemma round_trip_final : forall (BUF : Z) (dbg : bool) (vs : list (ity * Z)),
  39 <= BUF -> Forall (fun p => in_range (fst p) (snd p) = true) vs ->
  exists text, run BUF dbg [OWrite (VVec (int_values vs))] = Some (text, [])
               /\ parse_ints text = Some (map snd vs).
Proof. intros BUF dbg vs. exact (round_trip BUF dbg vs). Qed.
