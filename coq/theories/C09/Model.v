(** C09 — executable model of rlib/io/src/writer.rs (+ out!/outln! of output_macro.rs,
    BASE_10_LEN / unsigned_abs of rlib/num_traits/src/lib.rs).

    Bytes, lengths and integer values are [Z].  The writer is the pair
    (pending, sink): [pending] = buf[..end] (so [end] = length of [pending]),
    [sink] = everything the underlying [Write] object has received so far.
    [write_all] is an oracle (std): it delivers its argument, whatever partial
    writes / [Interrupted] results the sink produces on the way.

    Parameters: [BUF] = Writer::BUF_SIZE, [flush_each_write] =
    cfg!(debug_assertions).  [None] = panic.  Definitions only. *)
From Coq Require Import ZArith List Bool.
From RlibV Require Import Common.Iter.
Import ListNotations.
Open Scope Z_scope.

Definition byte := Z.

(** length as a binary number (tail recursive: buffers hold 64 KiB) *)
Fixpoint zlen_acc {A} (l : list A) (a : Z) : Z :=
  match l with [] => a | _ :: r => zlen_acc r (a + 1) end.
Definition zlen {A} (l : list A) : Z := zlen_acc l 0.

Definition bind {A B} (x : option A) (f : A -> option B) : option B :=
  match x with Some a => f a | None => None end.

(** ---------- the 12 integer types ---------- *)
Inductive ity := I8 | I16 | I32 | I64 | I128 | Isize | U8 | U16 | U32 | U64 | U128 | Usize.

Definition is_signed (t : ity) : bool :=
  match t with I8 | I16 | I32 | I64 | I128 | Isize => true | _ => false end.
(** isize/usize: 64-bit target *)
Definition bits (t : ity) : Z :=
  match t with
  | I8 | U8 => 8 | I16 | U16 => 16 | I32 | U32 => 32 | I64 | U64 => 64 | I128 | U128 => 128
  | Isize | Usize => 64
  end.
Definition in_range (t : ity) (v : Z) : bool :=
  if is_signed t then (- 2 ^ (bits t - 1) <=? v) && (v <? 2 ^ (bits t - 1))
  else (0 <=? v) && (v <? 2 ^ bits t).

(** num_traits: base_10_len!($ut):
      let mut value = <$ut>::MAX; let mut ans = 0;
      while value != 0 { value /= 10; ans += 1; }  ans
    (unsigned operands: [/] is [Z.div]) *)
Definition b10_step (s : Z * Z) : (Z * Z) + Z :=
  let '(value, ans) := s in
  if value =? 0 then inr ans else inl (value / 10, ans + 1).
Definition base_10_len (w : Z) : option Z :=
  match iter_pos b10_step big_fuel (2 ^ w - 1, 0) with
  | inr a => Some a
  | inl _ => None
  end.
(** const BASE_10_LEN of the 12 impls: rustc evaluates the loop once per type at
    compile time; so does Coq here (the table below is the loop's result,
    [Proofs.BASE_10_LEN_loop] says so) *)
Definition BASE_10_LEN (t : ity) : option Z :=
  Eval vm_compute in
  match t with
  | I8 | U8 => base_10_len 8 | I16 | U16 => base_10_len 16 | I32 | U32 => base_10_len 32
  | I64 | U64 | Isize | Usize => base_10_len 64 | I128 | U128 => base_10_len 128
  end.

(** unsigned_abs on a w-bit signed value: wrapping_abs reinterpreted as unsigned *)
Definition unsigned_abs (w : Z) (v : Z) : Z := Z.abs v mod 2 ^ w.

(** write_unsigned!: the digit loop
      let mut buf = [0; BASE_10_LEN]; let mut index = buf.len();
      while value != 0 { index -= 1; buf[index] = (value % 10) as u8 + b'0'; value /= 10; }
    [index] is the structural argument; [acc] = buf[index..]; [Z.div_eucl] gives
    quotient and remainder of the unsigned division at once.  [index -= 1] at 0
    underflows (debug: overflow panic; release: wraps and the store is out of
    bounds): [None]. *)
Fixpoint digit_loop (index : nat) (value : Z) (acc : list byte) : option (list byte) :=
  if value =? 0 then Some acc
  else match index with
       | O => None
       | S i => let (q, r) := Z.div_eucl value 10 in digit_loop i q ((r + 48) :: acc)
       end.

(** <[u8]>::chunks(n) (std, documented contract): consecutive pieces of n
    elements, the last one shorter if n does not divide the length; no piece
    for an empty slice.  [cur] = current piece reversed, [k] its length. *)
Fixpoint chunks_aux {A} (n : Z) (l : list A) (cur : list A) (k : Z) : list (list A) :=
  match l with
  | [] => if k =? 0 then [] else [rev' cur]
  | x :: r => if k + 1 =? n then rev' (x :: cur) :: chunks_aux n r [] 0
              else chunks_aux n r (x :: cur) (k + 1)
  end.
(** chunks(0) panics *)
Definition chunks {A} (n : Z) (l : list A) : option (list (list A)) :=
  if n <=? 0 then None else Some (chunks_aux n l [] 0).

(** ---------- values that can be written ---------- *)
Inductive value :=
| VInt (t : ity) (v : Z)        (* v in the range of t *)
| VStr (b : list byte)          (* &str / String: the UTF-8 bytes *)
| VVec (l : list value)         (* Vec<T> *)
| VTup (l : list value).        (* tuples, arity 2..8 *)

Inductive op :=
| OWrite (v : value)            (* writer.write(&v) *)
| OChar (c : Z)                 (* writer.write_char(c), c the code point *)
| OFlush                        (* writer.flush() *)
| OOut (vs : list value)        (* out!(v1, .., vn), n >= 1 *)
| OOutln (vs : list value).     (* outln!(v1, .., vn), n >= 0 *)

Record state := mk { pending : list byte; sink : list byte }.
Definition init : state := mk [] [].

(** std::io::Write::write_all on the sink: oracle *)
Definition write_all (snk data : list byte) : list byte := snk ++ data.

Section Writer.
Variable BUF : Z.
Variable flush_each_write : bool.

(** if self.end == 0 { return; }  stdout.write_all(&buf[..end]).unwrap();  end = 0 *)
Definition flush (s : state) : state :=
  match pending s with
  | [] => s
  | _ :: _ => mk [] (write_all (sink s) (pending s))
  end.

(** if self.end + size > self.buf.len() { self.flush(); } *)
Definition reserve (size : Z) (s : state) : state :=
  if zlen (pending s) + size >? BUF then flush s else s.

(** reserve(len); buf[end..end+len].copy_from_slice(b); end += len.
    The slice index panics when end + len > BUF_SIZE. *)
Definition write_bytes (b : list byte) (s : state) : option state :=
  let s1 := reserve (zlen b) s in
  if zlen (pending s1) + zlen b >? BUF then None
  else Some (mk (pending s1 ++ b) (sink s1)).

(** #[cfg(debug_assertions)] self.flush(); *)
Definition flush_dbg (s : state) : state := if flush_each_write then flush s else s.

(** write_bytes(&[c as u8]) + debug flush; [c as u8] truncates the code point *)
Definition write_char (c : Z) (s : state) : option state :=
  bind (write_bytes [c mod 256] s) (fun s1 => Some (flush_dbg s1)).

(** for chunk in s.as_bytes().chunks(BUF_SIZE) { writer.write_bytes(chunk) } *)
Fixpoint write_chunks (cs : list (list byte)) (s : state) : option state :=
  match cs with
  | [] => Some s
  | c :: r => bind (write_bytes c s) (write_chunks r)
  end.
Definition write_str (b : list byte) (s : state) : option state :=
  bind (chunks BUF b) (fun cs => write_chunks cs s).

(** write_unsigned!($t) body (without the debug flush of Writer::write) *)
Definition write_unsigned (t : ity) (v : Z) (s : state) : option state :=
  if v =? 0 then write_char 48 s
  else bind (BASE_10_LEN t) (fun len =>
       bind (digit_loop (Z.to_nat len) v []) (fun ds => write_bytes ds s)).

(** write_signed!($t): if self < 0 { write_char('-') }  writer.write(&self.unsigned_abs())
    (the unsigned type has the same BASE_10_LEN: integer_common!) *)
Definition write_signed (t : ity) (v : Z) (s : state) : option state :=
  bind (if v <? 0 then write_char 45 s else Some s) (fun s1 =>
  bind (write_unsigned t (unsigned_abs (bits t) v) s1) (fun s2 => Some (flush_dbg s2))).

(** [wr v] = <T as Writable>::write(&v, writer);  Writer::write(&v) = wr v, then the debug flush.
    Vec: for (i, x) in enumerate { if i != 0 { write_char(' ') } writer.write(x) }
    tuple: writer.write(A); then for each further component write_char(' '); writer.write(..) *)
Fixpoint wr (v : value) (s : state) : option state :=
  match v with
  | VInt t z => if is_signed t then write_signed t z s else write_unsigned t z s
  | VStr b => write_str b s
  | VVec l =>
      (fix go (first : bool) (l : list value) (s : state) {struct l} : option state :=
         match l with
         | [] => Some s
         | x :: r =>
             bind (if first then Some s else write_char 32 s) (fun s1 =>
             bind (wr x s1) (fun s2 => go false r (flush_dbg s2)))
         end) true l s
  | VTup l =>
      match l with
      | [] => None  (* no such type *)
      | x :: r =>
          bind (wr x s) (fun s1 =>
          (fix go (l : list value) (s : state) {struct l} : option state :=
             match l with
             | [] => Some s
             | y :: r' =>
                 bind (write_char 32 s) (fun s2 =>
                 bind (wr y s2) (fun s3 => go r' (flush_dbg s3)))
             end) r (flush_dbg s1))
      end
  end.

Definition write (v : value) (s : state) : option state :=
  bind (wr v s) (fun s1 => Some (flush_dbg s1)).

(** out_impl!: ($x) => write(&$x);  ($x, rest..) => write(&$x); write_char(' '); out_impl!(rest..) *)
Fixpoint out_impl (vs : list value) (s : state) : option state :=
  match vs with
  | [] => None (* no macro arm matches *)
  | x :: r =>
      match r with
      | [] => write x s
      | _ :: _ => bind (write x s) (fun s1 => bind (write_char 32 s1) (out_impl r))
      end
  end.

Definition step (o : op) (s : state) : option state :=
  match o with
  | OWrite v => write v s
  | OChar c => write_char c s
  | OFlush => Some (flush s)
  | OOut vs => out_impl vs s
  | OOutln vs =>
      match vs with
      | [] => write_char 10 s
      | _ :: _ => bind (out_impl vs s) (write_char 10)
      end
  end.

(** run a script; [tr] collects (reversed) the number of bytes the sink holds
    right after each explicit flush *)
Fixpoint exec (ops : list op) (s : state) (tr : list Z) : option (state * list Z) :=
  match ops with
  | [] => Some (s, tr)
  | o :: r =>
      bind (step o s) (fun s1 =>
      exec r s1 (match o with OFlush => zlen (sink s1) :: tr | _ => tr end))
  end.

(** impl Drop: flush *)
Definition drop (s : state) : state := flush s.

(** whole life of a writer: new, script, drop.  Result: what the sink holds
    after the drop, and its sizes after the explicit flushes (in call order). *)
Definition run (ops : list op) : option (list byte * list Z) :=
  bind (exec ops init []) (fun '(s, tr) => Some (sink (drop s), rev' tr)).
End Writer.
