(** C09 — the correspondence check carries the specification to the implementation:
    [model_check c = true -> spec_check c = true].

    Three bridges:
    - the model's decimal rendering [Spec.sdec] (the digit loop of write_unsigned!) is
      the standard library's decimal printer [Z.to_int] used by [Corr.dec]
      ([sdec_dec], for every integer): a canonical digit string read as a
      [Decimal.uint] is normalised, and [N.to_uint (Pos.of_uint d) = unorm d]
      (DecimalPos) makes it the numeral [Pos.to_uint] prints;
    - hence [Spec.render]/[render_op]/[rendering]/[flush_points] coincide with
      [Corr.sp_value]/[sp_op]/.. on the scripts of the property's quantifier, and
      [Corr.in_scope_op] implies [Spec.wf_op];
    - [run] delivers [rendering ops] and [flush_points ops 0]: [flush_delivers] for
      capacities >= 39 (no panic), and [run_delivers] below for every capacity
      (whenever the model does not panic). *)
From Coq Require Import ZArith NArith List Bool Lia.
From Coq Require Decimal DecimalFacts DecimalPos.
From RlibV Require Import Common.Batch C09.Model C09.Corr C09.Spec C09.Proofs.
Import ListNotations.
Open Scope Z_scope.

(** ---------- the model's decimal rendering is the standard library's ---------- *)
(** a digit string as a [Decimal.uint] *)
Fixpoint bytes_uint (ds : list byte) : Decimal.uint :=
  match ds with
  | [] => Decimal.Nil
  | b :: r =>
      let u := bytes_uint r in
      if b =? 48 then Decimal.D0 u else if b =? 49 then Decimal.D1 u else if b =? 50 then Decimal.D2 u
      else if b =? 51 then Decimal.D3 u else if b =? 52 then Decimal.D4 u else if b =? 53 then Decimal.D5 u
      else if b =? 54 then Decimal.D6 u else if b =? 55 then Decimal.D7 u else if b =? 56 then Decimal.D8 u
      else Decimal.D9 u
  end.

Lemma digit_cases b : is_digit b ->
  b = 48 \/ b = 49 \/ b = 50 \/ b = 51 \/ b = 52 \/ b = 53 \/ b = 54 \/ b = 55 \/ b = 56 \/ b = 57.
Proof. unfold is_digit. lia. Qed.

Lemma uint_bytes_bytes_uint ds : Forall is_digit ds -> uint_bytes (bytes_uint ds) = ds.
Proof.
  induction 1 as [|b r Hb _ IH]; [reflexivity|].
  cbn [bytes_uint]. destruct (digit_cases b Hb) as [E|[E|[E|[E|[E|[E|[E|[E|[E|E]]]]]]]]]; subst b;
    cbn [Z.eqb Pos.eqb uint_bytes]; rewrite IH; reflexivity.
Qed.

(** [Pos.of_uint] computes the value [Spec.dval] of the digit string *)
Lemma of_uint_acc_val d : forall acc,
  Z.pos (Pos.of_uint_acc d acc) = fold_left (fun a x => a * 10 + (x - 48)) (uint_bytes d) (Z.pos acc).
Proof.
  induction d as [|d IH|d IH|d IH|d IH|d IH|d IH|d IH|d IH|d IH|d IH]; intros acc;
    cbn [Pos.of_uint_acc uint_bytes fold_left]; [reflexivity|..]; rewrite IH; f_equal; lia.
Qed.

Lemma of_uint_val d : Z.of_N (Pos.of_uint d) = dval (uint_bytes d).
Proof.
  unfold dval.
  induction d as [|d IH|d IH|d IH|d IH|d IH|d IH|d IH|d IH|d IH|d IH];
    cbn [Pos.of_uint uint_bytes fold_left Z.of_N]; [reflexivity|exact IH|..];
    rewrite of_uint_acc_val; reflexivity.
Qed.

Lemma unorm_no_leading_zero ds : ds <> [] -> Forall is_digit ds -> hd 0 ds <> 48 ->
  Decimal.unorm (bytes_uint ds) = bytes_uint ds.
Proof.
  intros Hne HF Hhd. destruct ds as [|b r]; [congruence|]. cbn [hd] in Hhd.
  inversion HF as [|? ? Hb _]; subst.
  cbn [bytes_uint]. destruct (digit_cases b Hb) as [E|[E|[E|[E|[E|[E|[E|[E|[E|E]]]]]]]]]; subst b;
    [congruence|..]; reflexivity.
Qed.

(** the canonical numeral is unique: [Pos.to_uint] prints the digits of the digit loop *)
Lemma to_uint_udec p : uint_bytes (Pos.to_uint p) = udec (Z.pos p).
Proof.
  destruct (udec_canon (Z.pos p)) as (Hne & HF & Hv & Hhd); [lia|].
  assert (Hnz : hd 0 (udec (Z.pos p)) <> 48).
  { intros E. rewrite (Hhd E) in Hv. discriminate Hv. }
  pose proof (DecimalPos.Unsigned.to_of (bytes_uint (udec (Z.pos p)))) as H.
  assert (Hof : Pos.of_uint (bytes_uint (udec (Z.pos p))) = N.pos p).
  { apply N2Z.inj. rewrite of_uint_val, uint_bytes_bytes_uint by exact HF. rewrite Hv. reflexivity. }
  rewrite Hof, unorm_no_leading_zero in H by assumption.
  cbn [N.to_uint] in H. rewrite H. apply uint_bytes_bytes_uint, HF.
Qed.

Lemma sdec_dec v : sdec v = dec v.
Proof.
  unfold dec, sdec. destruct v as [|p|p]; cbn [Z.to_int Z.ltb Z.compare Z.opp].
  - reflexivity.
  - symmetry. apply to_uint_udec.
  - f_equal. symmetry. apply to_uint_udec.
Qed.

(** ---------- partial correctness at every capacity ----------
    [delivers f out]: whenever [f] does not panic it adds exactly [out] at the end of
    (sink ++ pending).  No hypothesis on the capacity or on the fill level: a piece that
    does not fit makes [write_bytes] panic, it is never truncated. *)
Section D.
Variable BUF : Z.
Variable dbg : bool.

Definition delivers (f : state -> option state) (out : list byte) : Prop :=
  forall s s', f s = Some s' -> content s' = content s ++ out.

Lemma delivers_ext f g out : (forall s, f s = g s) -> delivers f out -> delivers g out.
Proof. intros E H s s' Hs. rewrite <- E in Hs. apply H, Hs. Qed.

Lemma delivers_ret : delivers (fun s => Some s) [].
Proof. intros s s' E. injection E as <-. rewrite app_nil_r. reflexivity. Qed.

Lemma delivers_bind f g a b :
  delivers f a -> delivers g b -> delivers (fun s => bind (f s) g) (a ++ b).
Proof.
  intros Hf Hg s s' E. destruct (f s) as [s1|] eqn:E1; cbn [bind] in E; [|discriminate].
  rewrite (Hg _ _ E), (Hf _ _ E1), app_assoc. reflexivity.
Qed.

Lemma flush_dbg_content s : content (flush_dbg dbg s) = content s.
Proof. unfold flush_dbg. destruct dbg; [apply flush_content|reflexivity]. Qed.

Lemma delivers_flush : delivers (fun s => Some (flush s)) [].
Proof. intros s s' E. injection E as <-. rewrite flush_content, app_nil_r. reflexivity. Qed.

Lemma delivers_write_bytes b : delivers (write_bytes BUF b) b.
Proof.
  intros s s'. unfold write_bytes, reserve.
  destruct (zlen (pending s) + zlen b >? BUF) eqn:E.
  - destruct (zlen (pending (flush s)) + zlen b >? BUF); [discriminate|].
    intros H. injection H as <-. unfold content at 1. cbn [pending sink].
    rewrite flush_pending, flush_sink. reflexivity.
  - rewrite E. intros H. injection H as <-. unfold content. cbn [pending sink].
    rewrite app_assoc. reflexivity.
Qed.

Lemma delivers_then_dbg f out :
  delivers f out -> delivers (fun s => bind (f s) (fun s1 => Some (flush_dbg dbg s1))) out.
Proof.
  intros H s s' E. destruct (f s) as [s1|] eqn:E1; cbn [bind] in E; [|discriminate].
  injection E as <-. rewrite flush_dbg_content. apply H, E1.
Qed.

Lemma delivers_write_char c : delivers (write_char BUF dbg c) [c mod 256].
Proof. unfold write_char. apply delivers_then_dbg, delivers_write_bytes. Qed.

Lemma delivers_write_chunks cs : delivers (write_chunks BUF cs) (concat cs).
Proof.
  induction cs as [|c r IH]; cbn [write_chunks concat]; [apply delivers_ret|].
  apply delivers_bind; [apply delivers_write_bytes|exact IH].
Qed.

Lemma delivers_write_str b : delivers (write_str BUF b) b.
Proof.
  unfold write_str, chunks. destruct (BUF <=? 0) eqn:E; [intros s s' H; discriminate H|].
  cbn [bind]. assert (HB : 1 <= BUF) by lia.
  destruct (chunks_aux_spec BUF HB b [] 0) as [C _]; [reflexivity|lia|].
  cbn [rev app] in C. pose proof (delivers_write_chunks (chunks_aux BUF b [] 0)) as H.
  rewrite C in H. exact H.
Qed.

Lemma delivers_write_unsigned t v : 0 <= v < 2 ^ bits t ->
  delivers (write_unsigned BUF dbg t v) (udec v).
Proof.
  intros Hv. unfold write_unsigned. destruct (v =? 0) eqn:E.
  - assert (v = 0) as -> by lia. exact (delivers_write_char 48).
  - destruct (digit_loop_fits t v) as (L & EL & ED & _); [lia|].
    intros s s'. rewrite EL. cbn [bind]. rewrite ED. cbn [bind]. apply delivers_write_bytes.
Qed.

Lemma delivers_write_signed t v : is_signed t = true -> in_range t v = true ->
  delivers (write_signed BUF dbg t v) (sdec v).
Proof.
  intros Hs Hr. destruct (unsigned_abs_exact t v Hs Hr) as [Ea Ha].
  unfold write_signed, sdec. rewrite Ea. destruct (v <? 0) eqn:E.
  - replace (- v) with (Z.abs v) by lia.
    change (45 :: udec (Z.abs v)) with ([45 mod 256] ++ udec (Z.abs v)).
    apply delivers_bind; [apply delivers_write_char|].
    apply delivers_then_dbg, delivers_write_unsigned, Ha.
  - assert (Hab : Z.abs v = v) by lia. rewrite Hab in *.
    apply (delivers_bind (fun s => Some s) _ [] _ delivers_ret).
    apply delivers_then_dbg, delivers_write_unsigned, Ha.
Qed.

Lemma delivers_write_int t v : in_range t v = true -> delivers (wr BUF dbg (VInt t v)) (sdec v).
Proof.
  intros Hr. cbn [wr]. destruct (is_signed t) eqn:Hs.
  - apply delivers_write_signed; assumption.
  - pose proof (in_range_unsigned t v Hs Hr) as Hv.
    unfold sdec. destruct (v <? 0) eqn:E; [lia|]. apply delivers_write_unsigned, Hv.
Qed.

Lemma delivers_bind_dbg f g a b :
  delivers f a -> delivers g b ->
  delivers (fun s => bind (f s) (fun s1 => g (flush_dbg dbg s1))) (a ++ b).
Proof.
  intros Hf Hg s s' E. destruct (f s) as [s1|] eqn:E1; cbn [bind] in E; [|discriminate].
  rewrite (Hg _ _ E), flush_dbg_content, (Hf _ _ E1), app_assoc. reflexivity.
Qed.

Definition dgood (v : value) : Prop := wf_value v -> delivers (wr BUF dbg v) (render v).

Lemma delivers_vec_go_false l : Forall dgood l -> wf_values l ->
  delivers (vec_go BUF dbg false l) (concat (map (fun y => 32 :: render y) l)).
Proof.
  induction 1 as [|x r Hx _ IH]; intros Hwf; cbn [vec_go map concat]; [apply delivers_ret|].
  destruct Hwf as [Hwx Hwr].
  change (32 :: render x) with ([32 mod 256] ++ render x). rewrite <- app_assoc.
  apply delivers_bind; [apply delivers_write_char|].
  apply delivers_bind_dbg; [apply Hx, Hwx|apply IH, Hwr].
Qed.

Lemma delivers_vec_go_true l : Forall dgood l -> wf_values l ->
  delivers (vec_go BUF dbg true l) (Spec.join render l).
Proof.
  intros HF Hwf. destruct l as [|x r]; [apply delivers_ret|].
  rewrite join_cons. cbn [vec_go]. inversion HF as [|? ? Hx Hr]; subst. destruct Hwf as [Hwx Hwr].
  apply (delivers_bind (fun s => Some s) _ [] _ delivers_ret).
  apply delivers_bind_dbg; [apply Hx, Hwx|apply delivers_vec_go_false; assumption].
Qed.

Lemma delivers_tup_go l : Forall dgood l -> wf_values l ->
  delivers (tup_go BUF dbg l) (concat (map (fun y => 32 :: render y) l)).
Proof.
  induction 1 as [|x r Hx _ IH]; intros Hwf; cbn [tup_go map concat]; [apply delivers_ret|].
  destruct Hwf as [Hwx Hwr].
  change (32 :: render x) with ([32 mod 256] ++ render x). rewrite <- app_assoc.
  apply delivers_bind; [apply delivers_write_char|].
  apply delivers_bind_dbg; [apply Hx, Hwx|apply IH, Hwr].
Qed.

Lemma delivers_wr v : wf_value v -> delivers (wr BUF dbg v) (render v).
Proof.
  change (dgood v). induction v as [t z|b|l IH|l IH] using value_ind'; intros Hwf.
  - apply delivers_write_int, Hwf.
  - exact (delivers_write_str b).
  - cbn [wf_value] in Hwf. rewrite wf_all_values in Hwf.
    apply (delivers_ext (vec_go BUF dbg true l)); [intros s; symmetry; apply wr_vec|].
    apply delivers_vec_go_true; assumption.
  - cbn [wf_value] in Hwf. rewrite wf_all_values in Hwf. destruct Hwf as [Hwf Hlen].
    destruct l as [|x r]; [cbn in Hlen; lia|].
    apply (delivers_ext (fun s => bind (wr BUF dbg x s) (fun s1 => tup_go BUF dbg r (flush_dbg dbg s1))));
      [intros s; symmetry; apply wr_tup|].
    cbn [render]. rewrite join_cons. inversion IH as [|? ? Hx Hr]; subst. destruct Hwf as [Hwx Hwr].
    apply delivers_bind_dbg; [apply Hx, Hwx|apply delivers_tup_go; assumption].
Qed.

Lemma delivers_write v : wf_value v -> delivers (write BUF dbg v) (render v).
Proof. intros H. unfold write. apply delivers_then_dbg, delivers_wr, H. Qed.

Lemma delivers_out_impl vs : wf_values vs -> vs <> [] ->
  delivers (out_impl BUF dbg vs) (Spec.join render vs).
Proof.
  induction vs as [|x r IH]; intros Hwf Hne; [congruence|]. destruct Hwf as [Hwx Hwr].
  destruct r as [|y r].
  - cbn [out_impl Spec.join]. apply delivers_write, Hwx.
  - change (Spec.join render (x :: y :: r)) with (render x ++ [32 mod 256] ++ Spec.join render (y :: r)).
    change (out_impl BUF dbg (x :: y :: r)) with
      (fun s => bind (write BUF dbg x s) (fun s1 => bind (write_char BUF dbg 32 s1) (out_impl BUF dbg (y :: r)))).
    apply delivers_bind; [apply delivers_write, Hwx|].
    apply delivers_bind; [apply delivers_write_char|]. apply IH; [exact Hwr|discriminate].
Qed.

Lemma delivers_step o : wf_op o -> delivers (step BUF dbg o) (render_op o).
Proof.
  destruct o as [v|c| |vs|vs]; cbn [wf_op step render_op]; intros Hwf.
  - apply delivers_write, Hwf.
  - apply delivers_write_char.
  - apply delivers_flush.
  - destruct Hwf. apply delivers_out_impl; assumption.
  - destruct vs as [|x r].
    + exact (delivers_write_char 10).
    + change [10] with [10 mod 256].
      apply delivers_bind; [apply delivers_out_impl; [exact Hwf|discriminate]|apply delivers_write_char].
Qed.

Lemma exec_delivers ops : Forall wf_op ops -> forall s tr s' tr',
  exec BUF dbg ops s tr = Some (s', tr') ->
  content s' = content s ++ rendering ops
  /\ tr' = rev (Spec.flush_points ops (zlen (content s))) ++ tr.
Proof.
  induction 1 as [|o r Ho _ IH]; intros s tr s' tr' E; cbn [exec Spec.flush_points] in *.
  - injection E as <- <-. unfold rendering. cbn. rewrite app_nil_r. auto.
  - destruct (step BUF dbg o s) as [s1|] eqn:E1; cbn [bind] in E; [|discriminate].
    pose proof (delivers_step o Ho s s1 E1) as C1.
    assert (Hn : zlen (content s) + zlen (render_op o) = zlen (content s1))
      by (rewrite C1, zlen_app; reflexivity).
    rewrite Hn.
    destruct (IH _ _ _ _ E) as [C' T']. split.
    + rewrite C', C1. unfold rendering. cbn [map concat]. rewrite app_assoc. reflexivity.
    + rewrite T'. destruct o; try reflexivity.
      cbn [rev]. rewrite <- app_assoc. cbn [app]. do 2 f_equal.
      cbn [step] in E1. injection E1 as <-. rewrite flush_sink, flush_content. reflexivity.
Qed.

Lemma run_delivers ops r : Forall wf_op ops -> run BUF dbg ops = Some r ->
  r = (rendering ops, Spec.flush_points ops 0).
Proof.
  intros Hwf. unfold run. destruct (exec BUF dbg ops init []) as [[s tr]|] eqn:E; cbn [bind]; [|discriminate].
  intros H. injection H as <-.
  destruct (exec_delivers ops Hwf _ _ _ _ E) as [C T].
  change (content init) with (@nil byte) in *. cbn [app] in C. change (zlen (@nil byte)) with 0 in T.
  unfold drop. rewrite flush_sink, C, T, rev'_rev, app_nil_r, rev_involutive. reflexivity.
Qed.
End D.

(** ---------- Spec.v and the specification side of Corr.v say the same ---------- *)
Lemma join_agree {A} (f g : A -> list byte) l :
  Forall (fun x => f x = g x) l -> Spec.join f l = Corr.join g l.
Proof.
  induction 1 as [|x r Hx Hr IH]; [reflexivity|].
  cbn [Spec.join Corr.join]. destruct r as [|y r]; [exact Hx|]. rewrite Hx, IH. reflexivity.
Qed.

(** every value, in the quantifier or not *)
Lemma render_sp_value v : render v = sp_value v.
Proof.
  induction v as [t z|b|l IH|l IH] using value_ind'; cbn [render sp_value].
  - apply sdec_dec.
  - reflexivity.
  - apply join_agree, IH.
  - apply join_agree, IH.
Qed.

Lemma join_render_sp l : Spec.join render l = Corr.join sp_value l.
Proof. apply join_agree, Forall_forall. intros v _. apply render_sp_value. Qed.

(** write_char truncates the code point: the renderings agree on bytes (so on ASCII) *)
Lemma render_op_sp o : in_scope_op o = true -> render_op o = sp_op o.
Proof.
  destruct o as [v|c| |vs|vs]; cbn [in_scope_op render_op sp_op]; intros H.
  - apply render_sp_value.
  - rewrite Z.mod_small by lia. reflexivity.
  - reflexivity.
  - apply join_render_sp.
  - rewrite join_render_sp. reflexivity.
Qed.

Lemma in_scope_values_wf l :
  Forall (fun v => in_scope_value v = true -> wf_value v) l ->
  forallb in_scope_value l = true -> wf_values l.
Proof.
  induction 1 as [|x r Hx _ IH]; intros H; cbn [wf_values]; [exact I|].
  cbn [forallb] in H. apply andb_prop in H as [H1 H2]. split; [apply Hx, H1|apply IH, H2].
Qed.

Lemma in_scope_value_wf v : in_scope_value v = true -> wf_value v.
Proof.
  induction v as [t z|b|l IH|l IH] using value_ind'; cbn [in_scope_value wf_value]; intros H.
  - exact H.
  - exact I.
  - rewrite wf_all_values. apply in_scope_values_wf; assumption.
  - rewrite wf_all_values. apply andb_prop in H as [H H8]. apply andb_prop in H as [H H2].
    split; [apply in_scope_values_wf; assumption|].
    rewrite zlen_length in H2, H8. lia.
Qed.

Lemma in_scope_values_wf' l : forallb in_scope_value l = true -> wf_values l.
Proof.
  intros H. apply in_scope_values_wf; [|exact H].
  apply Forall_forall. intros v _. apply in_scope_value_wf.
Qed.

Lemma in_scope_op_wf o : in_scope_op o = true -> wf_op o.
Proof.
  destruct o as [v|c| |vs|vs]; cbn [in_scope_op wf_op]; intros H.
  - apply in_scope_value_wf, H.
  - exact I.
  - exact I.
  - apply andb_prop in H as [H H1]. split; [apply in_scope_values_wf', H|].
    intros ->. discriminate H1.
  - apply in_scope_values_wf', H.
Qed.

(** on the scripts of the property's quantifier: well formed, same rendering, same flush points *)
Lemma in_scope_script ops : forallb in_scope_op ops = true ->
  Forall wf_op ops
  /\ rendering ops = concat (map sp_op ops)
  /\ forall n, Spec.flush_points ops n = Corr.flush_points ops n.
Proof.
  induction ops as [|o r IH]; intros H.
  - split; [constructor|]. split; reflexivity.
  - cbn [forallb] in H. apply andb_prop in H as [Ho Hr].
    destruct (IH Hr) as (W & R & F). split; [constructor; [apply in_scope_op_wf, Ho|exact W]|].
    pose proof (render_op_sp o Ho) as E. split.
    + unfold rendering in *. cbn [map concat]. rewrite E, R. reflexivity.
    + intros n. cbn [Spec.flush_points Corr.flush_points]. rewrite E.
      destruct o; rewrite F; reflexivity.
Qed.

(** ---------- list equality test ---------- *)
Lemma zl_eqb_eq a : forall b, zl_eqb a b = true -> a = b.
Proof.
  unfold zl_eqb. induction a as [|x a IH]; intros [|y b] H; cbn [leqb] in H; try discriminate; [reflexivity|].
  apply andb_prop in H as [H1 H2]. apply Z.eqb_eq in H1. subst y. f_equal. apply IH, H2.
Qed.
Lemma zl_eqb_refl a : zl_eqb a a = true.
Proof. unfold zl_eqb. induction a as [|x a IH]; [reflexivity|]. cbn [leqb]. rewrite Z.eqb_refl, IH. reflexivity. Qed.

(** ---------- model_check implies spec_check ---------- *)
(** the core, at any capacity: the script is in the quantifier, the model does not panic *)
Lemma spec_check_of_run c snk fl :
  forallb in_scope_op (c_ops c) = true ->
  run (c_buf c) (c_dbg c) (c_ops c) = Some (snk, fl) ->
  snk = concat (map sp_op (c_ops c)) /\ fl = Corr.flush_points (c_ops c) 0.
Proof.
  intros S R. destruct (in_scope_script _ S) as (W & E & F).
  apply run_delivers in R; [|exact W]. injection R as -> ->. rewrite E, F. auto.
Qed.

Lemma model_check_spec_check c : in_scope c = true -> model_check c = true -> spec_check c = true.
Proof.
  unfold in_scope, spec_check, model_check. intros HS M. apply andb_prop in HS as [HB HV].
  destruct (forallb in_scope_op (c_ops c)) eqn:S; cbn [negb]; [|reflexivity].
  destruct (in_scope_script _ S) as (W & _ & _).
  assert (HB' : 39 <= c_buf c) by lia.
  destruct (flush_delivers_final (c_buf c) (c_dbg c) (c_ops c) HB' W) as (s & tr & _ & _ & _ & _ & R).
  destruct (spec_check_of_run c _ _ S R) as [E F].
  rewrite R in M. destruct (c_obs c) as [|snk' fl' same rb|n].
  - discriminate M.
  - apply andb_prop in M as [M1 M2]. apply zl_eqb_eq in M1, M2.
    cbn [executor_verdicts] in HV. apply andb_prop in HV as [-> ->].
    rewrite <- M1, <- M2, E, F, !zl_eqb_refl. reflexivity.
  - rewrite <- E. exact M.
Qed.

(** the same without the capacity hypothesis, for observations that are not a panic *)
Lemma model_check_spec_check_any_capacity c :
  c_obs c <> Panic -> executor_verdicts (c_obs c) = true -> model_check c = true -> spec_check c = true.
Proof.
  unfold spec_check, model_check. intros HP HV M.
  destruct (forallb in_scope_op (c_ops c)) eqn:S; cbn [negb]; [|reflexivity].
  destruct (run (c_buf c) (c_dbg c) (c_ops c)) as [[snk fl]|] eqn:R.
  - destruct (spec_check_of_run c _ _ S R) as [E F].
    destruct (c_obs c) as [|snk' fl' same rb|n]; [congruence| |].
    + apply andb_prop in M as [M1 M2]. apply zl_eqb_eq in M1, M2.
      cbn [executor_verdicts] in HV. apply andb_prop in HV as [-> ->].
      rewrite <- M1, <- M2, E, F, !zl_eqb_refl. reflexivity.
    + rewrite <- E. exact M.
  - destruct (c_obs c); [congruence|discriminate M|discriminate M].
Qed.

(** [in_scope] asks no more of the observation than [spec_check] itself does *)
Lemma spec_check_verdicts c :
  forallb in_scope_op (c_ops c) = true -> spec_check c = true -> executor_verdicts (c_obs c) = true.
Proof.
  unfold spec_check. intros -> H. cbn [negb] in H.
  destruct (c_obs c) as [|snk fl same rb|n]; [discriminate H| |reflexivity].
  cbn [executor_verdicts]. apply andb_prop in H as [H H4]. apply andb_prop in H as [_ H3].
  rewrite H3. exact H4.
Qed.

(** ---------- final forms (argument order of Properties.v) ---------- *)
Lemma model_check_spec_check_final : forall c : case,
  in_scope c = true -> model_check c = true -> spec_check c = true.
Proof. exact model_check_spec_check. Qed.

Lemma model_check_spec_check_any_capacity_final : forall c : case,
  c_obs c <> Panic -> executor_verdicts (c_obs c) = true -> model_check c = true -> spec_check c = true.
Proof. exact model_check_spec_check_any_capacity. Qed.

Lemma run_delivers_final : forall (BUF : Z) (dbg : bool) (ops : list op) (r : list byte * list Z),
  Forall wf_op ops -> run BUF dbg ops = Some r -> r = (rendering ops, Spec.flush_points ops 0).
Proof. intros BUF dbg ops r. exact (run_delivers BUF dbg ops r). Qed.

Lemma sdec_dec_final : forall v : Z, sdec v = dec v.
Proof. exact sdec_dec. Qed.
