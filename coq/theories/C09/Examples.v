(** C09 — non-vacuity: concrete instances of every hypothesis of the property theorems,
    and the model run on literals. *)
From Coq Require Import ZArith List Bool Lia Uint63.
From RlibV Require Import C09.Model C09.Corr C09.Spec C09.Proofs C09.Properties.
Import ListNotations.
Open Scope Z_scope.

(** a script using every kind of operation and value *)
Definition script : list op :=
  [ OWrite (VInt I8 (-128)); OChar 32; OWrite (VInt U128 (2 ^ 128 - 1)); OFlush;
    OWrite (VStr [104; 105]); OChar 10;
    OWrite (VVec [VInt I64 (- 2 ^ 63); VInt I64 0; VInt I64 (2 ^ 63 - 1)]);
    OWrite (VVec []);
    OWrite (VTup [VInt U8 200; VStr [104; 101; 108; 108; 111]; VInt I8 (-111)]);
    OOut [VInt I32 1; VTup [VInt U16 65535; VInt Isize (-1)]]; OOutln []; OOutln [VInt Usize 7]; OFlush ].

Lemma script_wf : Forall wf_op script.
Proof. unfold script. repeat constructor; cbn; try lia; try discriminate. Qed.

(** the hypotheses of c09_invariant / c09_flush_delivers hold for the real capacity, both flavours *)
Example invariant_instance_release :
  exists s tr, exec 65536 false script init [] = Some (s, tr)
               /\ sink s ++ pending s = rendering script /\ zlen (pending s) <= 65536.
Proof. apply c09_invariant; [lia|exact script_wf]. Qed.
Example invariant_instance_debug :
  exists s tr, exec 65536 true script init [] = Some (s, tr)
               /\ sink s ++ pending s = rendering script /\ zlen (pending s) <= 65536.
Proof. apply c09_invariant; [lia|exact script_wf]. Qed.

(** the model run on this literal: both flavours deliver the same 116 bytes, the flush sizes agree *)
Example run_release : run 65536 false script = Some (rendering script, [44; 116]).
Proof. vm_compute. reflexivity. Qed.
Example run_debug : run 65536 true script = Some (rendering script, [44; 116]).
Proof. vm_compute. reflexivity. Qed.
Example rendering_text :
  firstn 45 (rendering script) =
  [45;49;50;56; 32; 51;52;48;50;56;50;51;54;54;57;50;48;57;51;56;52;54;51;52;54;51;51;55;52;54;48;55;52;51;49;55;54;56;50;49;49;52;53;53; 104].
Proof. vm_compute. reflexivity. Qed.

(** the smallest admitted capacity: the buffer is flushed in the middle of the script *)
Example run_tiny : run 39 false script = Some (rendering script, [44; 116]).
Proof. vm_compute. reflexivity. Qed.
Example tiny_buffer_mid_state :
  exists snk, exec 39 false (firstn 3 script) init [] = Some (mk (sdec (2 ^ 128 - 1)) snk, []) /\ snk = [45;49;50;56;32].
Proof. eexists. split; vm_compute; reflexivity. Qed.

(** below that capacity a 39-digit integer does not fit: the model panics (no such build exists) *)
Example too_small : run 38 false [OWrite (VInt U128 (2 ^ 128 - 1))] = None.
Proof. vm_compute. reflexivity. Qed.

(** c09_piece_any_capacity / c09_string_any_capacity / c09_oversized_piece_panics *)
Example piece_instance :
  exists s', write_bytes 4 [1; 2; 3] (mk [9; 9] [7]) = Some s'
             /\ sink s' ++ pending s' = ([7] ++ [9; 9]) ++ [1; 2; 3] /\ zlen (pending s') <= 4.
Proof. apply c09_piece_any_capacity; cbn; lia. Qed.
Example string_instance : write 2 false (VStr [1; 2; 3; 4; 5]) (mk [9] [7]) = Some (mk [5] [7; 9; 1; 2; 3; 4]).
Proof. vm_compute. reflexivity. Qed.
Example oversized_instance : write_bytes 2 [1; 2; 3] init = None.
Proof. apply c09_oversized_piece_panics. cbn. lia. Qed.

(** c09_render_*: MIN of the widest type *)
Example render_min_i128 : in_range I128 (- 2 ^ 127) = true /\
  sdec (- 2 ^ 127) = 45 :: [49;55;48;49;52;49;49;56;51;52;54;48;52;54;57;50;51;49;55;51;49;54;56;55;51;48;51;55;49;53;56;56;52;49;48;53;55;50;56].
Proof. split; vm_compute; reflexivity. Qed.
Example render_instance_signed : canonical_decimal (sdec (-128)) (-128).
Proof. apply (c09_render_signed I8 (-128)); reflexivity. Qed.
Example render_instance_unsigned : canonical_decimal (sdec 255) 255.
Proof. apply (c09_render_unsigned U8 255); reflexivity. Qed.
Example base10len_values :
  map BASE_10_LEN [U8; U16; U32; U64; U128; Usize] = [Some 3; Some 5; Some 10; Some 20; Some 39; Some 20].
Proof. reflexivity. Qed.

(** c09_round_trip *)
Definition some_ints : list (ity * Z) :=
  [(I8, -128); (U8, 0); (I128, - 2 ^ 127); (U128, 2 ^ 128 - 1); (Isize, 42); (U16, 65535); (I32, -1)].
Lemma some_ints_in_range : Forall (fun p => in_range (fst p) (snd p) = true) some_ints.
Proof. repeat constructor. Qed.
Example round_trip_instance :
  exists text, run 65536 true [OWrite (VVec (int_values some_ints))] = Some (text, [])
               /\ parse_ints text = Some (map snd some_ints).
Proof. apply c09_round_trip; [lia|exact some_ints_in_range]. Qed.
Example parse_literal : parse_ints [32; 45; 49; 50; 10; 13; 55; 9; 48; 12] = Some [-12; 7; 0].
Proof. vm_compute. reflexivity. Qed.

(** c09_model_check_spec_check: a case as bin/check writes it (release flavour, the crate's
    capacity; 50 received bytes packed seven to a word, flush seen at 44 bytes, both
    executor verdicts positive); its hypotheses hold by computation, the conclusion by the theorem *)
Definition some_case : case :=
  Case 65536 false
    [OWrite (VInt I8 (-128)); OChar 32; OWrite (VInt U128 (zv false [340;282366920938463463;374607431768211455]%uint63));
     OFlush; OOutln [VInt U8 7; VInt I64 (-42)]]
    (Ret (expand [Lit [84778059749667636;85623609861813814;88156850409912372;87313542120944439;
               86753873539380017;87598332745167156;87034278682899506;266]%uint63])
         [44] true (Some true)).
Example some_case_in_scope : in_scope some_case = true.
Proof. vm_compute. reflexivity. Qed.
Example some_case_model_check : model_check some_case = true.
Proof. vm_compute. reflexivity. Qed.
Example some_case_spec_check : spec_check some_case = true.
Proof. apply c09_model_check_spec_check; [exact some_case_in_scope|exact some_case_model_check]. Qed.
(** the script is in the property's quantifier (the conclusion is not the vacuous branch) *)
Example some_case_in_quantifier : forallb in_scope_op (c_ops some_case) = true.
Proof. vm_compute. reflexivity. Qed.
(** a panic observed below capacity 39 matches the model and fails the specification:
    the capacity hypothesis of [in_scope] cannot be dropped for [Panic] observations *)
Example small_capacity_panic :
  let c := Case 38 false [OWrite (VInt U128 (2 ^ 128 - 1))] Panic in
  model_check c = true /\ spec_check c = false /\ in_scope c = false.
Proof. vm_compute. auto. Qed.
(** c09_model_check_spec_check_any_capacity: capacity 5, nothing longer than 5 bytes in one piece *)
Example any_capacity_instance :
  let c := Case 5 true [OWrite (VInt I8 (-128)); OFlush; OWrite (str [Run 97 30%N])]
                (Ret (expand [Lit [5053166136]%uint63; Run 97 30%N]) [4] true None) in
  c_obs c <> Panic /\ executor_verdicts (c_obs c) = true /\ model_check c = true /\ spec_check c = true.
Proof.
  cbv zeta. split; [discriminate|]. split; [reflexivity|]. split; [vm_compute; reflexivity|].
  apply c09_model_check_spec_check_any_capacity; [discriminate|reflexivity|vm_compute; reflexivity].
Qed.
(** c09_run_some_delivers below capacity 39 *)
Example run_some_instance :
  run 5 false script = None /\
  run 5 false [OWrite (VInt I8 (-128)); OFlush; OWrite (VStr [1;2;3;4;5;6;7])] = Some ([45;49;50;56;1;2;3;4;5;6;7], [4]).
Proof. split; vm_compute; reflexivity. Qed.
Example sdec_dec_instance : sdec (- 2 ^ 127) = dec (- 2 ^ 127) /\ dec 0 = [48] /\ dec (-7) = [45; 55].
Proof. split; [apply c09_sdec_is_dec|split; vm_compute; reflexivity]. Qed.
