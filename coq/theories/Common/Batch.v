(** Helpers for the correspondence batches written by bin/check. *)
From Coq Require Import List NArith ZArith Bool.
Import ListNotations.

Section Batch.
Context {A : Type}.
Fixpoint bad_idx_from (i : N) (f : A -> bool) (l : list A) : list N :=
  match l with
  | [] => []
  | x :: xs => if f x then bad_idx_from (N.succ i) f xs else i :: bad_idx_from (N.succ i) f xs
  end.
(** indices of the cases on which [f] is false *)
Definition bad_idx (f : A -> bool) (l : list A) : list N := bad_idx_from 0%N f l.
End Batch.

Definition oeqb {A} (eqb : A -> A -> bool) (x y : option A) : bool :=
  match x, y with Some a, Some b => eqb a b | None, None => true | _, _ => false end.
Definition peqb {A B} (ea : A -> A -> bool) (eb : B -> B -> bool) (x y : A * B) : bool :=
  ea (fst x) (fst y) && eb (snd x) (snd y).
Fixpoint leqb {A} (eqb : A -> A -> bool) (x y : list A) : bool :=
  match x, y with
  | [], [] => true
  | a :: x', b :: y' => eqb a b && leqb eqb x' y'
  | _, _ => false
  end.
