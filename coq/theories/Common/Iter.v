(** Binary fuel: loops whose iteration count depends on the data.

    [iter_pos step p s] runs [step] at most [Pos.to_nat p] times, by structural
    recursion on the *binary* representation of [p]; under [vm_compute] it
    stops as soon as [step] returns [inr], so a fuel of 2^128 costs nothing.
    [iter_pos_spec] is the proof rule: an invariant, a postcondition and an
    integer measure that strictly decreases give termination within the fuel
    and the postcondition.  No model function returns a normal-looking value
    when the fuel runs out: the result is [inl _] then, which every theorem
    excludes. *)
From Coq Require Import ZArith Lia List.
Import ListNotations.

Section Iter.
Context {S R : Type}.
Variable step : S -> S + R.

Fixpoint iter_nat (n : nat) (s : S) : S + R :=
  match n with
  | O => inl s
  | Datatypes.S n' => match step s with inl s' => iter_nat n' s' | inr r => inr r end
  end.

Fixpoint iter_pos (p : positive) (s : S) : S + R :=
  match p with
  | xH => step s
  | xO q => match iter_pos q s with inl s' => iter_pos q s' | inr r => inr r end
  | xI q => match step s with
            | inl s' => match iter_pos q s' with inl s'' => iter_pos q s'' | inr r => inr r end
            | inr r => inr r
            end
  end.

Lemma iter_nat_add n m s :
  iter_nat (n + m) s = match iter_nat n s with inl s' => iter_nat m s' | inr r => inr r end.
Proof.
  revert s; induction n as [|n IH]; intros s; cbn [iter_nat Nat.add]; [reflexivity|].
  destruct (step s) as [s'|r]; [apply IH|reflexivity].
Qed.

Lemma iter_pos_nat p : forall s, iter_pos p s = iter_nat (Pos.to_nat p) s.
Proof.
  induction p as [q IH|q IH|]; intros s; cbn [iter_pos].
  - rewrite Pos2Nat.inj_xI. cbn [iter_nat].
    destruct (step s) as [s'|r]; [|reflexivity].
    replace (2 * Pos.to_nat q)%nat with (Pos.to_nat q + Pos.to_nat q)%nat by lia.
    rewrite iter_nat_add, <- IH. destruct (iter_pos q s') as [s''|r]; [apply IH|reflexivity].
  - rewrite Pos2Nat.inj_xO.
    replace (2 * Pos.to_nat q)%nat with (Pos.to_nat q + Pos.to_nat q)%nat by lia.
    rewrite iter_nat_add, <- IH. destruct (iter_pos q s) as [s'|r]; [apply IH|reflexivity].
  - rewrite Pos2Nat.inj_1. cbn [iter_nat]. destruct (step s); reflexivity.
Qed.

Section Spec.
Variable Inv : S -> Prop.
Variable Post : R -> Prop.
Variable mu : S -> Z.
Hypothesis step_ok : forall s, Inv s ->
  match step s with
  | inl s' => Inv s' /\ (0 <= mu s' < mu s)%Z
  | inr r => Post r
  end.

Lemma iter_nat_spec n : forall s, Inv s -> (0 <= mu s < Z.of_nat n)%Z ->
  exists r, iter_nat n s = inr r /\ Post r.
Proof.
  induction n as [|n IH]; intros s Hi Hm; [lia|].
  cbn [iter_nat]. pose proof (step_ok s Hi) as Hs.
  destruct (step s) as [s'|r].
  - destruct Hs as [Hi' Hm']. apply IH; [exact Hi'|lia].
  - exists r. split; [reflexivity|exact Hs].
Qed.

Theorem iter_pos_spec p s : Inv s -> (0 <= mu s < Zpos p)%Z ->
  exists r, iter_pos p s = inr r /\ Post r.
Proof.
  intros Hi Hm. rewrite iter_pos_nat. apply iter_nat_spec; [exact Hi|].
  rewrite positive_nat_Z. exact Hm.
Qed.
End Spec.

(** Partial-correctness form: whatever the fuel, a returned [inr] satisfies
    the postcondition and a returned [inl] still satisfies the invariant. *)
Lemma iter_nat_inv (Inv : S -> Prop) (Post : R -> Prop) :
  (forall s, Inv s -> match step s with inl s' => Inv s' | inr r => Post r end) ->
  forall n s, Inv s -> match iter_nat n s with inl s' => Inv s' | inr r => Post r end.
Proof.
  intros Hstep n; induction n as [|n IH]; intros s Hi; cbn [iter_nat]; [exact Hi|].
  pose proof (Hstep s Hi) as Hs. destruct (step s) as [s'|r]; [apply IH; exact Hs|exact Hs].
Qed.

Lemma iter_pos_inv (Inv : S -> Prop) (Post : R -> Prop) :
  (forall s, Inv s -> match step s with inl s' => Inv s' | inr r => Post r end) ->
  forall p s, Inv s -> match iter_pos p s with inl s' => Inv s' | inr r => Post r end.
Proof. intros H p s Hi. rewrite iter_pos_nat. now apply iter_nat_inv. Qed.
End Iter.

(** The fuel used by every model: more steps than any 128-bit quantity can count. *)
Definition big_fuel : positive := Eval compute in Pos.pow 2 130.
Lemma big_fuel_val : Zpos big_fuel = (2 ^ 130)%Z.
Proof. reflexivity. Qed.
